//! A-img: whole-image deserialisation / serialisation with SYMBOLIC content on images whose
//! vectors hold 0 or 1 element (larger images are out of reach for CBMC, DESIGN.md P10').  The image
//! bytes are laid out by the harness from symbolic words following the documented format
//! (length-prefixed little-endian arrays of states, [mapper,] outputs, match-kind byte, state count);
//! this pins the field ORDER of serialize()/deserialize_unchecked(), the match-kind byte, the
//! state count and the remainder slice.  Element encodings for all values: U-ser.
#[cfg(not(kani))]
use crate::shim as kani;
use daachorse::bytewise::verif as bv;
use daachorse::charwise::verif as cv;
use daachorse::{CharwiseDoubleArrayAhoCorasick, DoubleArrayAhoCorasick, MatchKind};

crate::lookup! { bw_image_0, bw_image_1, cw_image_0, cw_image_1 }

fn put(buf: &mut [u8], at: usize, w: u32) -> usize {
    let b = w.to_le_bytes();
    buf[at] = b[0];
    buf[at + 1] = b[1];
    buf[at + 2] = b[2];
    buf[at + 3] = b[3];
    at + 4
}

fn kind_of(b: u8) -> MatchKind {
    match b {
        1 => MatchKind::LeftmostLongest,
        2 => MatchKind::LeftmostFirst,
        _ => MatchKind::Standard,
    }
}

macro_rules! bw_image {
    ($name:ident, $n:literal, $u:literal) => {
        // any() order: sw: [u32; 3], ow: [u32; 3], kind: u8, ns: u32, t: [u8; 2], i: usize
        #[cfg_attr(kani, kani::proof)]
        #[cfg_attr(kani, kani::unwind($u))]
        pub fn $name() {
            const N: usize = $n;
            let sw: [u32; 3] = kani::any();
            let ow: [u32; 3] = kani::any();
            let kind: u8 = kani::any();
            kani::assume(kind < 3);
            let ns: u32 = kani::any();
            let t: [u8; 2] = kani::any();
            const LEN: usize = 4 + 12 * N + 4 + 12 * N + 1 + 4;
            let mut buf = [0u8; LEN + 2];
            let mut at = put(&mut buf, 0, N as u32);
            if N == 1 {
                at = put(&mut buf, at, sw[0]);
                at = put(&mut buf, at, sw[1]);
                at = put(&mut buf, at, sw[2]);
            }
            at = put(&mut buf, at, N as u32);
            if N == 1 {
                at = put(&mut buf, at, ow[0]); // value (u32)
                at = put(&mut buf, at, ow[1]); // length
                at = put(&mut buf, at, ow[2]); // parent
            }
            buf[at] = kind;
            at = put(&mut buf, at + 1, ns);
            assert!(at == LEN);
            buf[LEN] = t[0];
            buf[LEN + 1] = t[1];
            let (pma, rest) = unsafe { DoubleArrayAhoCorasick::<u32>::deserialize_unchecked(&buf) };
            assert!(rest.len() == 2 && rest[0] == t[0] && rest[1] == t[1], "A-img: remainder is not the trailing bytes");
            assert!(bv::match_kind(&pma) == kind_of(kind), "A-img: match kind");
            assert!(pma.num_states() == ns as usize, "A-img: state count");
            assert!(bv::num_slots(&pma) == N && bv::num_outputs(&pma) == N, "A-img: vector lengths");
            if N == 1 {
                assert!(bv::state_words(&bv::slot(&pma, 0)) == sw, "A-img: state words");
                assert!(bv::output_fields(&bv::out(&pma, 0)) == (ow[0], ow[1], ow[2]), "A-img: output record");
            }
            // and back: serialize() must reproduce the image
            let again = pma.serialize();
            assert!(again.len() == LEN, "A-img: serialize() length");
            let i: usize = kani::any();
            kani::assume(i < LEN);
            assert!(again[i] == buf[i], "A-img: serialize() does not reproduce the image");
            core::mem::forget(pma);
            core::mem::forget(again);
        }
    };
}
bw_image!(bw_image_0, 0, 6);
bw_image!(bw_image_1, 1, 6);

macro_rules! cw_image {
    ($name:ident, $n:literal, $u:literal) => {
        // any() order: sw: [u32; 4], mw: u32, asz: u32, ow: [u32; 3], kind: u8, ns: u32, t, i
        #[cfg_attr(kani, kani::proof)]
        #[cfg_attr(kani, kani::unwind($u))]
        pub fn $name() {
            const N: usize = $n;
            let sw: [u32; 4] = kani::any();
            let mw: u32 = kani::any();
            let asz: u32 = kani::any();
            let ow: [u32; 3] = kani::any();
            let kind: u8 = kani::any();
            kani::assume(kind < 3);
            let ns: u32 = kani::any();
            let t: [u8; 2] = kani::any();
            const LEN: usize = 4 + 16 * N + (4 + 4 * N + 4) + 4 + 12 * N + 1 + 4;
            let mut buf = [0u8; LEN + 2];
            let mut at = put(&mut buf, 0, N as u32);
            if N == 1 {
                at = put(&mut buf, at, sw[0]);
                at = put(&mut buf, at, sw[1]);
                at = put(&mut buf, at, sw[2]);
                at = put(&mut buf, at, sw[3]);
            }
            at = put(&mut buf, at, N as u32);
            if N == 1 {
                at = put(&mut buf, at, mw);
            }
            at = put(&mut buf, at, asz);
            at = put(&mut buf, at, N as u32);
            if N == 1 {
                at = put(&mut buf, at, ow[0]);
                at = put(&mut buf, at, ow[1]);
                at = put(&mut buf, at, ow[2]);
            }
            buf[at] = kind;
            at = put(&mut buf, at + 1, ns);
            assert!(at == LEN);
            buf[LEN] = t[0];
            buf[LEN + 1] = t[1];
            let (pma, rest) = unsafe { CharwiseDoubleArrayAhoCorasick::<u32>::deserialize_unchecked(&buf) };
            assert!(rest.len() == 2 && rest[0] == t[0] && rest[1] == t[1], "A-img(cw): remainder is not the trailing bytes");
            assert!(cv::match_kind(&pma) == kind_of(kind), "A-img(cw): match kind");
            assert!(pma.num_states() == ns as usize, "A-img(cw): state count");
            assert!(cv::num_slots(&pma) == N && cv::num_outputs(&pma) == N, "A-img(cw): vector lengths");
            if N == 1 {
                assert!(cv::state_words(&cv::slot(&pma, 0)) == sw, "A-img(cw): state words");
                assert!(cv::output_fields(&cv::out(&pma, 0)) == (ow[0], ow[1], ow[2]), "A-img(cw): output record");
                let want = if mw == u32::MAX { None } else { Some(mw) };
                assert!(cv::map_char(&pma, '\u{0}') == want, "A-img(cw): mapper entry");
            }
            let again = pma.serialize();
            assert!(again.len() == LEN, "A-img(cw): serialize() length");
            let i: usize = kani::any();
            kani::assume(i < LEN);
            assert!(again[i] == buf[i], "A-img(cw): serialize() does not reproduce the image");
            core::mem::forget(pma);
            core::mem::forget(again);
        }
    };
}
cw_image!(cw_image_0, 0, 6);
cw_image!(cw_image_1, 1, 6);
