//! A-ser: whole-image round trip on concrete tiny char-wise automata (4 slots, 2 mapper entries,
//! 2 outputs; values concrete, trailing bytes symbolic).  Concrete data makes symbolic execution an
//! interpreter, so this pins the FIELD ORDER symmetry of serialize()/deserialize_unchecked() and the
//! remainder slice; the for-all-values part is U-ser.
#[cfg(not(kani))]
use crate::shim as kani;
use daachorse::charwise::verif as cv;
use daachorse::{CharwiseDoubleArrayAhoCorasick, MatchKind};

crate::lookup! { cw_image, cw_image_lm, cw_image_u128, cw_image_u8 }

macro_rules! image_rt {
    ($name:ident, $t:ty, $kind:expr, $v0:expr, $v1:expr, $u:literal) => {
        // any() order: t: [u8; 2]
        #[cfg_attr(kani, kani::proof)]
        #[cfg_attr(kani, kani::unwind($u))]
        pub fn $name() {
            let t: [u8; 2] = kani::any();
            // patterns {"\u{1}", "\u{1}\u{1}"} over the one-letter alphabet {U+0001}
            let states = vec![
                cv::state(2, 1, 1, 0),
                cv::state(0, 1, 1, 0),
                cv::state(1, 0, 0, 1),
                cv::state(0, 2, 2, 2),
            ];
            let outputs = vec![cv::output::<$t>($v0, 1, 0), cv::output::<$t>($v1, 2, 1)];
            let mapper = cv::mapper_from_raw(vec![u32::MAX, 0], 1);
            let pma: CharwiseDoubleArrayAhoCorasick<$t> = cv::from_raw(states, mapper, outputs, $kind, 3);
            let mut bytes = pma.serialize();
            let n = bytes.len();
            assert!(n == 4 + 4 * 16 + (4 + 2 * 4 + 4) + 4 + 2 * (core::mem::size_of::<$t>() + 8) + 1 + 4,
                "A-ser: image size");
            bytes.push(t[0]);
            bytes.push(t[1]);
            let (back, rest) = unsafe { CharwiseDoubleArrayAhoCorasick::<$t>::deserialize_unchecked(&bytes) };
            assert!(rest.len() == 2 && rest[0] == t[0] && rest[1] == t[1], "A-ser: remainder");
            assert!(back == pma, "A-ser: restored automaton differs");
            assert!(cv::match_kind(&back) == $kind, "A-ser: match kind");
            let again = back.serialize();
            assert!(again.len() == n, "A-ser: re-serialised length");
            let mut i = 0;
            while i < n {
                assert!(again[i] == bytes[i], "A-ser: re-serialised bytes differ");
                i += 1;
            }
            core::mem::forget(pma);
            core::mem::forget(back);
            core::mem::forget(bytes);
            core::mem::forget(again);
        }
    };
}
image_rt!(cw_image, u32, MatchKind::Standard, 7, 0xdead_beef, 140);
image_rt!(cw_image_lm, u32, MatchKind::LeftmostFirst, 7, 0xdead_beef, 140);
image_rt!(cw_image_u128, u128, MatchKind::LeftmostLongest, u128::MAX, 1u128 << 100, 170);
image_rt!(cw_image_u8, u8, MatchKind::Standard, 255, 0, 140);
