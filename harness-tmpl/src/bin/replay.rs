//! replay <harness> <v1> <v2> ...   — native re-execution of one harness on model values.
//! exit 0: harness ran to completion (counterexample NOT reproduced)
//! exit 1: an assertion of the harness or of the code under test panicked (REPRODUCED)
//! exit 3: the values violate a harness assumption / are malformed
//! (a process abort, e.g. std's unsafe-precondition check, is seen by the caller as a signal)
#[cfg(kani)]
fn main() {}

#[cfg(not(kani))]
fn main() {
    let args: Vec<String> = std::env::args().collect();
    let name = &args[1];
    let vals: Vec<u128> = args[2..].iter().map(|s| s.parse().expect("numeric model value")).collect();
    let f = vharness::lookup(name).unwrap_or_else(|| {
        eprintln!("unknown harness {name}");
        std::process::exit(3)
    });
    vharness::shim::load(&vals);
    let r = std::panic::catch_unwind(f);
    match r {
        Ok(()) => {
            println!("PASSED (values left: {}, padded: {})", vharness::shim::remaining(), vharness::shim::padded());
            std::process::exit(0)
        }
        Err(e) => {
            let msg = e
                .downcast_ref::<String>()
                .cloned()
                .or_else(|| e.downcast_ref::<&str>().map(|s| s.to_string()))
                .unwrap_or_default();
            if msg.starts_with("SHIM:") {
                println!("MALFORMED {msg}");
                std::process::exit(3)
            }
            println!("REPRODUCED {msg}");
            std::process::exit(1)
        }
    }
}
