//! I family, byte-wise: every iterator is the stated transducer over (next_state, output_pos,
//! outputs), decided over ARBITRARY N-slot tables that satisfy the representation invariant Inv
//! and from arbitrary iterator states (one inductive step) or from the public constructor (two
//! calls).  The transition function itself is the real one (validated per built table by T).
#[cfg(not(kani))]
use crate::shim as kani;
use daachorse::bytewise::verif as v;
use daachorse::{DoubleArrayAhoCorasick as Pma, MatchKind};

crate::lookup! {
    step_overlapping, step_no_suffix, find_two_calls, leftmost_two_calls,
    step_overlapping_n8, step_no_suffix_n8, find_two_calls_n8, leftmost_two_calls_n8,
}

/// Arbitrary table under Inv.  any() order per slot: base, fail, opos, check; per output: val, len, par.
pub fn sym_table<const N: usize, const NO: usize>(
    kind: MatchKind,
    leftmost: bool,
) -> (Pma<u32>, [[u32; 3]; N], [(u32, u32, u32); NO]) {
    let mut raw = [[0u32; 3]; N];
    let mut st = [v::state(0, 0, 0); N];
    let mut i = 0;
    while i < N {
        let base: u32 = kani::any();
        let fail: u32 = kani::any();
        let opos: u32 = kani::any();
        let check: u8 = kani::any();
        kani::assume(base < N as u32);
        if i == 0 {
            kani::assume(fail == 0);
        } else if leftmost && i >= 2 {
            kani::assume(fail < i as u32); // includes the dead slot 1
        } else {
            kani::assume(fail < i as u32);
        }
        kani::assume(opos <= NO as u32);
        let w = (opos << 8) | check as u32;
        raw[i] = [base, fail, w];
        st[i] = v::state(base, fail, w);
        i += 1;
    }
    let mut outs = [v::output(0u32, 0, 0); NO];
    let mut rawo = [(0u32, 0u32, 0u32); NO];
    let mut j = 0;
    while j < NO {
        let val: u32 = kani::any();
        let len: u32 = kani::any();
        let par: u32 = kani::any();
        kani::assume(par <= j as u32);
        kani::assume(len >= 1);
        outs[j] = v::output(val, len, par);
        rawo[j] = (val, len, par);
        j += 1;
    }
    (v::from_raw(Vec::from(st), Vec::from(outs), kind, 1), raw, rawo)
}

pub fn sym_haystack<const L: usize, const N: usize>() -> ([u8; L], usize) {
    let h: [u8; L] = kani::any();
    let len: usize = kani::any();
    kani::assume(len <= L);
    let mut i = 0;
    while i < L {
        kani::assume((h[i] as usize) < N);
        i += 1;
    }
    (h, len)
}

#[inline(always)]
fn opos_of<const N: usize>(raw: &[[u32; 3]; N], s: u32) -> u32 {
    raw[s as usize][2] >> 8
}

/// `m` must be exactly (end, value) with the record's length; start is checked when it exists.
fn same_match(m: Option<daachorse::Match<u32>>, end: usize, rec: (u32, u32, u32)) -> bool {
    match m {
        None => false,
        Some(m) => {
            let l = rec.1 as usize;
            m.end() == end && m.value() == rec.0 && (l > end || m.start() == end - l)
        }
    }
}

fn step_overlapping_body<const N: usize, const NO: usize>() {
    let (pma, raw, rawo) = sym_table::<N, NO>(MatchKind::Standard, false);
    let s0: u32 = kani::any();
    let o0: u32 = kani::any();
    let p0: usize = kani::any();
    kani::assume(s0 < N as u32 && o0 <= NO as u32 && p0 < 1000);
    let (h, len) = sym_haystack::<2, N>();
    let mut it = v::overlapping_at(&pma, h[..len].iter().copied(), s0, p0, o0);
    let r = it.next();
    let (s1, p1, o1) = v::overlapping_state(&it);
    if o0 != 0 {
        // a pending output chain is emitted first, at the remembered position
        let rec = rawo[(o0 - 1) as usize];
        assert!(same_match(r, p0, rec), "I-ovl: pending chain element");
        assert!(s1 == s0 && p1 == p0 && o1 == rec.2, "I-ovl: post-state after a chain element");
        kani::cover!(rec.2 != 0, "I-ovl: chain continues");
    } else {
        let mut s = s0;
        let mut k = 0;
        let mut found = false;
        while k < len {
            s = unsafe { v::next_state(&pma, s, h[k]) };
            k += 1;
            if opos_of(&raw, s) != 0 {
                found = true;
                break;
            }
        }
        assert!(s1 == s, "I-ovl: post-state id");
        if found {
            let o = opos_of(&raw, s);
            let rec = rawo[(o - 1) as usize];
            assert!(same_match(r, k, rec), "I-ovl: match at the first state with an output");
            assert!(p1 == k && o1 == rec.2, "I-ovl: post-state after a match");
            kani::cover!(k == 2, "I-ovl: match after two bytes");
        } else {
            assert!(r.is_none(), "I-ovl: match invented");
        }
    }
    core::mem::forget(pma);
}

fn step_no_suffix_body<const N: usize, const NO: usize>() {
    let (pma, raw, rawo) = sym_table::<N, NO>(MatchKind::Standard, false);
    let s0: u32 = kani::any();
    kani::assume(s0 < N as u32);
    let (h, len) = sym_haystack::<2, N>();
    let mut it = v::no_suffix_at(&pma, h[..len].iter().copied(), s0);
    let r = it.next();
    let s1 = v::no_suffix_state(&it);
    let mut s = s0;
    let mut k = 0;
    let mut found = false;
    while k < len {
        s = unsafe { v::next_state(&pma, s, h[k]) };
        k += 1;
        if opos_of(&raw, s) != 0 {
            found = true;
            break;
        }
    }
    assert!(s1 == s, "I-nosuf: the state must persist across calls");
    if found {
        let rec = rawo[(opos_of(&raw, s) - 1) as usize];
        assert!(same_match(r, k, rec), "I-nosuf: head of the output list at the first output state");
        kani::cover!(k == 2, "I-nosuf: match after two bytes");
    } else {
        assert!(r.is_none(), "I-nosuf: match invented");
    }
    core::mem::forget(pma);
}

/// Reference for one find_iter step: scan from `from` starting at the ROOT.
fn ref_find<const N: usize, const NO: usize, const L: usize>(
    pma: &Pma<u32>,
    raw: &[[u32; 3]; N],
    rawo: &[(u32, u32, u32); NO],
    h: &[u8; L],
    len: usize,
    from: usize,
) -> Option<(usize, (u32, u32, u32))> {
    let mut s = 0u32;
    let mut i = 0;
    while i < L {
        if i >= from && i < len {
            s = unsafe { v::next_state(pma, s, h[i]) };
            let o = opos_of(raw, s);
            if o != 0 {
                return Some((i + 1, rawo[(o - 1) as usize]));
            }
        }
        i += 1;
    }
    None
}

fn find_two_calls_body<const N: usize, const NO: usize>() {
    let (pma, raw, rawo) = sym_table::<N, NO>(MatchKind::Standard, false);
    let (h, len) = sym_haystack::<3, N>();
    let mut it = pma.find_iter(&h[..len]);
    let r1 = it.next();
    let r2 = it.next();
    let e1 = ref_find(&pma, &raw, &rawo, &h, len, 0);
    match e1 {
        None => {
            assert!(r1.is_none() && r2.is_none(), "I-find: match invented");
        }
        Some((end1, rec1)) => {
            assert!(same_match(r1, end1, rec1), "I-find: first match");
            // the second call restarts from the ROOT at end1 and keeps absolute offsets
            match ref_find(&pma, &raw, &rawo, &h, len, end1) {
                None => assert!(r2.is_none(), "I-find: second match invented"),
                Some((end2, rec2)) => {
                    assert!(same_match(r2, end2, rec2), "I-find: second match (restart from root, absolute offsets)");
                    kani::cover!(end2 == end1 + 1, "I-find: adjacent matches");
                }
            }
        }
    }
    core::mem::forget(pma);
}

/// Reference for one leftmost step from byte offset `pos0`.
fn ref_leftmost<const N: usize, const NO: usize, const L: usize>(
    pma: &Pma<u32>,
    raw: &[[u32; 3]; N],
    rawo: &[(u32, u32, u32); NO],
    h: &[u8; L],
    len: usize,
    pos0: usize,
) -> (Option<(usize, (u32, u32, u32))>, usize) {
    let mut s = 0u32;
    let mut last = 0u32;
    let mut pos = pos0;
    let mut i = 0;
    while i < L {
        if i >= pos0 && i < len {
            s = unsafe { v::next_state_leftmost(pma, s, h[i]) };
            if s == 0 {
                if last != 0 {
                    return (Some((pos, rawo[(last - 1) as usize])), pos);
                }
            } else {
                let o = opos_of(raw, s);
                if o != 0 {
                    last = o;
                    pos = i + 1;
                }
            }
        }
        i += 1;
    }
    if last != 0 {
        (Some((pos, rawo[(last - 1) as usize])), pos)
    } else {
        (None, pos)
    }
}

fn leftmost_two_calls_body<const N: usize, const NO: usize>() {
    let (pma, raw, rawo) = sym_table::<N, NO>(MatchKind::LeftmostLongest, true);
    let (h, len) = sym_haystack::<3, N>();
    let mut it = pma.leftmost_find_iter(&h[..len]);
    let r1 = it.next();
    let p1 = v::leftmost_pos(&it);
    let r2 = it.next();
    let (e1, q1) = ref_leftmost(&pma, &raw, &rawo, &h, len, 0);
    assert!(p1 == q1, "I-lm: resume offset after the first call");
    match e1 {
        None => assert!(r1.is_none(), "I-lm: match invented"),
        Some((end, rec)) => assert!(same_match(r1, end, rec), "I-lm: first match"),
    }
    let (e2, _q2) = ref_leftmost(&pma, &raw, &rawo, &h, len, q1);
    match e2 {
        None => assert!(r2.is_none(), "I-lm: second match invented"),
        Some((end, rec)) => {
            assert!(same_match(r2, end, rec), "I-lm: second match");
            kani::cover!(e1.is_some(), "I-lm: two matches");
        }
    }
    core::mem::forget(pma);
}

macro_rules! inst {
    ($name:ident, $body:ident, $n:literal, $no:literal, $u:literal) => {
        #[cfg_attr(kani, kani::proof)]
        #[cfg_attr(kani, kani::unwind($u))]
        pub fn $name() {
            $body::<$n, $no>();
        }
    };
}
inst!(step_overlapping, step_overlapping_body, 4, 2, 6);
inst!(step_no_suffix, step_no_suffix_body, 4, 2, 6);
inst!(find_two_calls, find_two_calls_body, 4, 2, 6);
inst!(leftmost_two_calls, leftmost_two_calls_body, 4, 2, 6);
inst!(step_overlapping_n8, step_overlapping_body, 8, 3, 10);
inst!(step_no_suffix_n8, step_no_suffix_body, 8, 3, 10);
inst!(find_two_calls_n8, find_two_calls_body, 8, 3, 10);
inst!(leftmost_two_calls_n8, leftmost_two_calls_body, 8, 3, 10);
