//! I family, char-wise: as i_bw, with a symbolic 4-entry code mapper (so every char >= U+0004
//! takes the unmapped path and 1-, 2-, 3-, 4-byte chars all occur) and byte offsets that must be
//! the UTF-8 end offsets of the consumed chars.
#[cfg(not(kani))]
use crate::shim as kani;
use daachorse::charwise::verif as v;
use daachorse::{CharwiseDoubleArrayAhoCorasick as Pma, MatchKind};

crate::lookup! {
    step_overlapping, step_no_suffix, find_two_calls, leftmost_two_calls,
    step_overlapping_n8, step_no_suffix_n8, find_two_calls_n8, leftmost_two_calls_n8,
}

const NMAP: usize = 4;

/// any() order: per slot base, check, fail, opos; mapper codes [u32; 4]; per output val, len, par.
pub fn sym_table<const N: usize, const NO: usize>(kind: MatchKind) -> (Pma<u32>, [[u32; 4]; N], [(u32, u32, u32); NO]) {
    let mut raw = [[0u32; 4]; N];
    let mut st = [v::state(0, 0, 0, 0); N];
    let mut i = 0;
    while i < N {
        let base: u32 = kani::any();
        let check: u32 = kani::any();
        let fail: u32 = kani::any();
        let opos: u32 = kani::any();
        kani::assume(base < N as u32);
        if i == 0 {
            kani::assume(fail == 0);
        } else {
            kani::assume(fail < i as u32);
        }
        kani::assume(opos <= NO as u32);
        raw[i] = [base, check, fail, opos];
        st[i] = v::state(base, check, fail, opos);
        i += 1;
    }
    let codes: [u32; NMAP] = kani::any();
    let mut i = 0;
    while i < NMAP {
        kani::assume(codes[i] == u32::MAX || codes[i] < N as u32);
        i += 1;
    }
    let mapper = v::mapper_from_raw(Vec::from(codes), NMAP as u32);
    let mut outs = [v::output(0u32, 0, 0); NO];
    let mut rawo = [(0u32, 0u32, 0u32); NO];
    let mut j = 0;
    while j < NO {
        let val: u32 = kani::any();
        let len: u32 = kani::any();
        let par: u32 = kani::any();
        kani::assume(par <= j as u32);
        kani::assume(len >= 1);
        outs[j] = v::output(val, len, par);
        rawo[j] = (val, len, par);
        j += 1;
    }
    (v::from_raw(Vec::from(st), mapper, Vec::from(outs), kind, 1), raw, rawo)
}

/// Up to L arbitrary chars, UTF-8 encoded by std.  Returns (chars, count, bytes, end offsets).
pub fn sym_text<const L: usize, const LB: usize>() -> ([char; L], usize, [u8; LB], [usize; L]) {
    let cs: [char; L] = kani::any();
    let n: usize = kani::any();
    kani::assume(n <= L);
    let mut buf = [0u8; LB];
    let mut ends = [0usize; L];
    let mut len = 0;
    let mut i = 0;
    while i < L {
        if i < n {
            len += cs[i].encode_utf8(&mut buf[len..]).len();
        }
        ends[i] = len;
        i += 1;
    }
    (cs, n, buf, ends)
}

fn same_match(m: Option<daachorse::Match<u32>>, end: usize, rec: (u32, u32, u32)) -> bool {
    match m {
        None => false,
        Some(m) => {
            let l = rec.1 as usize;
            m.end() == end && m.value() == rec.0 && (l > end || m.start() == end - l)
        }
    }
}

fn step_overlapping_body<const N: usize, const NO: usize>() {
    let (pma, raw, rawo) = sym_table::<N, NO>(MatchKind::Standard);
    let s0: u32 = kani::any();
    let o0: u32 = kani::any();
    let p0: usize = kani::any();
    kani::assume(s0 < N as u32 && o0 <= NO as u32 && p0 < 1000);
    let (cs, n, buf, ends) = sym_text::<2, 8>();
    let len = if n == 0 { 0 } else { ends[n - 1] };
    let mut it = unsafe { v::overlapping_at(&pma, buf[..len].iter().copied(), s0, p0, o0) };
    let r = it.next();
    let (s1, p1, o1) = v::overlapping_state(&it);
    if o0 != 0 {
        let rec = rawo[(o0 - 1) as usize];
        assert!(same_match(r, p0, rec), "I-ovl(cw): pending chain element");
        assert!(s1 == s0 && p1 == p0 && o1 == rec.2, "I-ovl(cw): post-state after a chain element");
        kani::cover!(rec.2 != 0, "I-ovl(cw): chain continues");
    } else {
        let mut s = s0;
        let mut k = 0;
        let mut found = false;
        while k < n {
            s = unsafe { v::next_state(&pma, s, cs[k]) };
            k += 1;
            if raw[s as usize][3] != 0 {
                found = true;
                break;
            }
        }
        assert!(s1 == s, "I-ovl(cw): post-state id");
        if found {
            let rec = rawo[(raw[s as usize][3] - 1) as usize];
            assert!(same_match(r, ends[k - 1], rec), "I-ovl(cw): match must end at the UTF-8 end offset of the last char");
            assert!(p1 == ends[k - 1] && o1 == rec.2, "I-ovl(cw): post-state after a match");
            kani::cover!(k == 2 && ends[1] >= 5, "I-ovl(cw): match after two chars incl. a wide one");
        } else {
            assert!(r.is_none(), "I-ovl(cw): match invented");
        }
    }
    core::mem::forget(pma);
}

fn step_no_suffix_body<const N: usize, const NO: usize>() {
    let (pma, raw, rawo) = sym_table::<N, NO>(MatchKind::Standard);
    let s0: u32 = kani::any();
    kani::assume(s0 < N as u32);
    let (cs, n, buf, ends) = sym_text::<2, 8>();
    let len = if n == 0 { 0 } else { ends[n - 1] };
    let mut it = unsafe { v::no_suffix_at(&pma, buf[..len].iter().copied(), s0) };
    let r = it.next();
    let s1 = v::no_suffix_state(&it);
    let mut s = s0;
    let mut k = 0;
    let mut found = false;
    while k < n {
        s = unsafe { v::next_state(&pma, s, cs[k]) };
        k += 1;
        if raw[s as usize][3] != 0 {
            found = true;
            break;
        }
    }
    assert!(s1 == s, "I-nosuf(cw): the state must persist across calls");
    if found {
        let rec = rawo[(raw[s as usize][3] - 1) as usize];
        assert!(same_match(r, ends[k - 1], rec), "I-nosuf(cw): head of the output list, UTF-8 end offset");
        kani::cover!(k == 2, "I-nosuf(cw): match after two chars");
    } else {
        assert!(r.is_none(), "I-nosuf(cw): match invented");
    }
    core::mem::forget(pma);
}

/// One find_iter step over chars `from..n`, starting at the ROOT.
fn ref_find<const N: usize, const NO: usize, const L: usize>(
    pma: &Pma<u32>,
    raw: &[[u32; 4]; N],
    rawo: &[(u32, u32, u32); NO],
    cs: &[char; L],
    n: usize,
    ends: &[usize; L],
    from: usize,
) -> Option<(usize, usize, (u32, u32, u32))> {
    let mut s = 0u32;
    let mut i = 0;
    while i < L {
        if i >= from && i < n {
            s = unsafe { v::next_state(pma, s, cs[i]) };
            let o = raw[s as usize][3];
            if o != 0 {
                return Some((i + 1, ends[i], rawo[(o - 1) as usize]));
            }
        }
        i += 1;
    }
    None
}

fn find_two_calls_body<const N: usize, const NO: usize>() {
    let (pma, raw, rawo) = sym_table::<N, NO>(MatchKind::Standard);
    let (cs, n, buf, ends) = sym_text::<3, 12>();
    let len = if n == 0 { 0 } else { ends[n - 1] };
    let text = unsafe { core::str::from_utf8_unchecked(&buf[..len]) };
    let mut it = pma.find_iter(text);
    let r1 = it.next();
    let r2 = it.next();
    match ref_find(&pma, &raw, &rawo, &cs, n, &ends, 0) {
        None => assert!(r1.is_none() && r2.is_none(), "I-find(cw): match invented"),
        Some((next1, end1, rec1)) => {
            assert!(same_match(r1, end1, rec1), "I-find(cw): first match");
            match ref_find(&pma, &raw, &rawo, &cs, n, &ends, next1) {
                None => assert!(r2.is_none(), "I-find(cw): second match invented"),
                Some((_next2, end2, rec2)) => {
                    assert!(same_match(r2, end2, rec2), "I-find(cw): second match (restart from root, absolute byte offsets)");
                    kani::cover!(end2 > end1 + 1, "I-find(cw): second match ends after a wide char");
                }
            }
        }
    }
    core::mem::forget(pma);
}

/// One leftmost step from char index `from` (byte offset `pos0`).  Returns (match, new char
/// index, new byte offset).
fn ref_leftmost<const N: usize, const NO: usize, const L: usize>(
    pma: &Pma<u32>,
    raw: &[[u32; 4]; N],
    rawo: &[(u32, u32, u32); NO],
    cs: &[char; L],
    n: usize,
    ends: &[usize; L],
    from: usize,
    pos0: usize,
) -> (Option<(usize, (u32, u32, u32))>, usize, usize) {
    let mut s = 0u32;
    let mut last = 0u32;
    let mut pos = pos0;
    let mut nxt = from;
    let mut i = 0;
    while i < L {
        if i >= from && i < n {
            s = unsafe { v::next_state_leftmost(pma, s, cs[i]) };
            if s == 0 {
                if last != 0 {
                    return (Some((pos, rawo[(last - 1) as usize])), nxt, pos);
                }
            } else {
                let o = raw[s as usize][3];
                if o != 0 {
                    last = o;
                    pos = ends[i];
                    nxt = i + 1;
                }
            }
        }
        i += 1;
    }
    if last != 0 {
        (Some((pos, rawo[(last - 1) as usize])), nxt, pos)
    } else {
        (None, nxt, pos)
    }
}

fn leftmost_two_calls_body<const N: usize, const NO: usize>() {
    let (pma, raw, rawo) = sym_table::<N, NO>(MatchKind::LeftmostLongest);
    let (cs, n, buf, ends) = sym_text::<3, 12>();
    let len = if n == 0 { 0 } else { ends[n - 1] };
    let text = unsafe { core::str::from_utf8_unchecked(&buf[..len]) };
    let mut it = pma.leftmost_find_iter(text);
    let r1 = it.next();
    let p1 = v::leftmost_pos(&it);
    let r2 = it.next();
    let (e1, nxt1, q1) = ref_leftmost(&pma, &raw, &rawo, &cs, n, &ends, 0, 0);
    assert!(p1 == q1, "I-lm(cw): resume offset must be the byte offset of a char boundary");
    assert!(text.is_char_boundary(p1), "I-lm(cw): resume offset splits a char");
    match e1 {
        None => assert!(r1.is_none(), "I-lm(cw): match invented"),
        Some((end, rec)) => assert!(same_match(r1, end, rec), "I-lm(cw): first match"),
    }
    let (e2, _n2, _q2) = ref_leftmost(&pma, &raw, &rawo, &cs, n, &ends, nxt1, q1);
    match e2 {
        None => assert!(r2.is_none(), "I-lm(cw): second match invented"),
        Some((end, rec)) => {
            assert!(same_match(r2, end, rec), "I-lm(cw): second match");
            kani::cover!(e1.is_some(), "I-lm(cw): two matches");
        }
    }
    core::mem::forget(pma);
}

macro_rules! inst {
    ($name:ident, $body:ident, $n:literal, $no:literal, $u:literal) => {
        #[cfg_attr(kani, kani::proof)]
        #[cfg_attr(kani, kani::unwind($u))]
        pub fn $name() {
            $body::<$n, $no>();
        }
    };
}
inst!(step_overlapping, step_overlapping_body, 4, 2, 6);
inst!(step_no_suffix, step_no_suffix_body, 4, 2, 6);
inst!(find_two_calls, find_two_calls_body, 4, 2, 6);
inst!(leftmost_two_calls, leftmost_two_calls_body, 4, 2, 6);
inst!(step_overlapping_n8, step_overlapping_body, 8, 3, 10);
inst!(step_no_suffix_n8, step_no_suffix_body, 8, 3, 10);
inst!(find_two_calls_n8, find_two_calls_body, 8, 3, 10);
inst!(leftmost_two_calls_n8, leftmost_two_calls_body, 8, 3, 10);
