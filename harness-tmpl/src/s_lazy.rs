//! S-lazy: the byte-iterator entry points read their source lazily, once, left to right, and
//! give the same matches as the slice entry points -- over arbitrary 4-slot tables (i_bw / i_cw
//! table generators), with a counting source whose size_hint() is valid but not exact.
#[cfg(not(kani))]
use crate::shim as kani;
use core::cell::Cell;
use daachorse::MatchKind;

crate::lookup! { bw_find, bw_overlapping, bw_overlapping_full, bw_no_suffix, cw_find, cw_overlapping, cw_overlapping_full, cw_no_suffix, bw_owned_find, bw_owned_overlapping, bw_owned_no_suffix }

pub struct Src<'a, const L: usize> {
    data: [u8; L],
    n: usize,
    idx: usize,
    slack: usize,
    pulled: &'a Cell<usize>,
}

impl<const L: usize> Iterator for Src<'_, L> {
    type Item = u8;
    fn next(&mut self) -> Option<u8> {
        if self.idx < self.n {
            let b = self.data[self.idx];
            self.idx += 1;
            self.pulled.set(self.pulled.get() + 1);
            Some(b)
        } else {
            None
        }
    }
    // a correct iterator may report any lower bound <= remaining and no upper bound
    fn size_hint(&self) -> (usize, Option<usize>) {
        ((self.n - self.idx).saturating_sub(self.slack), None)
    }
}

macro_rules! lazy_bw {
    ($name:ident, $from_iter:ident, $slice:ident, $calls:literal, $no:literal) => {
        // any() order: table (see i_bw::sym_table), h, len, slack
        #[cfg_attr(kani, kani::proof)]
        #[cfg_attr(kani, kani::unwind(6))]
        pub fn $name() {
            let (pma, _raw, _rawo) = crate::i_bw::sym_table::<4, $no>(MatchKind::Standard, false);
            let (h, len) = crate::i_bw::sym_haystack::<2, 4>();
            let slack: usize = kani::any();
            let pulled = Cell::new(0usize);
            let src = Src { data: h, n: len, idx: 0, slack, pulled: &pulled };
            let mut a = pma.$from_iter(src);
            let mut b = pma.$slice(&h[..len]);
            let mut k = 0;
            let mut ended = false;
            while k < $calls {
                if !ended {
                    let x = a.next();
                    let y = b.next();
                    assert!(x == y, "S-lazy: iterator entry point differs from the slice entry point");
                    match x {
                        Some(m) => assert!(pulled.get() == m.end(), "S-lazy: bytes pulled != end of the returned match"),
                        None => {
                            assert!(pulled.get() == len, "S-lazy: source not consumed exactly once");
                            ended = true;
                        }
                    }
                }
                k += 1;
            }
            assert!(ended, "S-lazy: more matches than the harness budget");
            kani::cover!(pulled.get() == 2, "S-lazy: two bytes pulled");
            core::mem::forget(pma);
        }
    };
}
lazy_bw!(bw_find, find_iter_from_iter, find_iter, 3, 2);
lazy_bw!(bw_overlapping, find_overlapping_iter_from_iter, find_overlapping_iter, 3, 1);
lazy_bw!(bw_overlapping_full, find_overlapping_iter_from_iter, find_overlapping_iter, 5, 2);
lazy_bw!(bw_no_suffix, find_overlapping_no_suffix_iter_from_iter, find_overlapping_no_suffix_iter, 3, 2);

macro_rules! lazy_cw {
    ($name:ident, $from_iter:ident, $slice:ident, $calls:literal, $no:literal) => {
        // any() order: table (see i_cw::sym_table), cs, n, slack
        #[cfg_attr(kani, kani::proof)]
        #[cfg_attr(kani, kani::unwind(6))]
        pub fn $name() {
            let (pma, _raw, _rawo) = crate::i_cw::sym_table::<4, $no>(MatchKind::Standard);
            let (_cs, n, buf, ends) = crate::i_cw::sym_text::<2, 8>();
            let len = if n == 0 { 0 } else { ends[n - 1] };
            let slack: usize = kani::any();
            let pulled = Cell::new(0usize);
            let src = Src { data: buf, n: len, idx: 0, slack, pulled: &pulled };
            let text = unsafe { core::str::from_utf8_unchecked(&buf[..len]) };
            let mut a = unsafe { pma.$from_iter(src) };
            let mut b = pma.$slice(text);
            let mut k = 0;
            let mut ended = false;
            while k < $calls {
                if !ended {
                    let x = a.next();
                    let y = b.next();
                    assert!(x == y, "S-lazy(cw): iterator entry point differs from the str entry point");
                    match x {
                        Some(m) => assert!(pulled.get() == m.end(), "S-lazy(cw): bytes pulled != end of the returned match"),
                        None => {
                            assert!(pulled.get() == len, "S-lazy(cw): source not consumed exactly once");
                            ended = true;
                        }
                    }
                }
                k += 1;
            }
            assert!(ended, "S-lazy(cw): more matches than the harness budget");
            kani::cover!(pulled.get() >= 5, "S-lazy(cw): a wide char was pulled");
            core::mem::forget(pma);
        }
    };
}
lazy_cw!(cw_find, find_iter_from_iter, find_iter, 3, 2);
lazy_cw!(cw_overlapping, find_overlapping_iter_from_iter, find_overlapping_iter, 3, 1);
lazy_cw!(cw_overlapping_full, find_overlapping_iter_from_iter, find_overlapping_iter, 5, 2);
lazy_cw!(cw_no_suffix, find_overlapping_no_suffix_iter_from_iter, find_overlapping_no_suffix_iter, 3, 2);

// S-own: the slice entry points take their haystack BY VALUE (`P: AsRef<[u8]>`), so an owned haystack with inline
// storage (an array) is moved into the iterator and then moved again with it.  The iterator is built in a callee
// and returned (its frame is dead afterwards, which is what makes a pointer into the moved-from value visible to
// CBMC's pointer checks); its matches must equal those of the byte-iterator entry point over the same bytes.
macro_rules! owned_bw {
    ($name:ident, $helper:ident, $from_iter:ident, $slice:ident) => {
        #[inline(never)]
        fn $helper<'a>(pma: &'a daachorse::DoubleArrayAhoCorasick<u32>, h: [u8; 2]) -> impl Iterator<Item = daachorse::Match<u32>> + 'a {
            pma.$slice(h)
        }
        // any() order: table (see i_bw::sym_table), h, len
        #[cfg_attr(kani, kani::proof)]
        #[cfg_attr(kani, kani::unwind(6))]
        pub fn $name() {
            let (pma, _raw, _rawo) = crate::i_bw::sym_table::<2, 1>(MatchKind::Standard, false);
            let (h, _len) = crate::i_bw::sym_haystack::<2, 2>();
            let mut a = $helper(&pma, h);
            let mut b = pma.$from_iter(h.iter().copied());
            let mut k = 0;
            let mut ended = false;
            let mut seen = 0;
            while k < 4 {
                if !ended {
                    let x = a.next();
                    let y = b.next();
                    assert!(x == y, "S-own: owned-haystack entry point differs from the byte-iterator entry point");
                    if x.is_none() {
                        ended = true;
                    } else {
                        seen += 1;
                    }
                }
                k += 1;
            }
            assert!(ended, "S-own: more matches than the harness budget");
            kani::cover!(seen >= 1, "S-own: a match was returned");
            core::mem::forget(a);
            core::mem::forget(b);
            core::mem::forget(pma);
        }
    };
}
owned_bw!(bw_owned_find, own_find, find_iter_from_iter, find_iter);
owned_bw!(bw_owned_overlapping, own_ovl, find_overlapping_iter_from_iter, find_overlapping_iter);
owned_bw!(bw_owned_no_suffix, own_nosuf, find_overlapping_no_suffix_iter_from_iter, find_overlapping_no_suffix_iter);
