//! Twin harnesses: a per-run self-test of the whole pipeline (DESIGN.md section 5).
//! `twin_ok` must be SUCCESSFUL with its cover satisfied; `twin_fail` asserts something false
//! and must come back FAILED with a counterexample that reproduces natively.
#[cfg(not(kani))]
use crate::shim as kani;
use daachorse::bytewise::verif as bv;

crate::lookup! { twin_ok, twin_fail }

#[cfg_attr(kani, kani::proof)]
#[cfg_attr(kani, kani::unwind(3))]
pub fn twin_ok() {
    let x: u32 = kani::any();
    let p = bv::packed(x);
    let (a, b) = bv::packed_get(&p);
    assert!(a == x >> 8 && b == (x & 0xff) as u8);
    kani::cover!(a == 5, "selftest: reachable");
}

// Exercises every input shape the other harnesses use (scalars, byte/word arrays, char, usize, an
// input the failing assertion does not depend on) so that the trace -> model values -> native
// replay path is checked on each run.
#[cfg_attr(kani, kani::proof)]
#[cfg_attr(kani, kani::unwind(3))]
pub fn twin_fail() {
    let x: u32 = kani::any();
    let xs: [u8; 3] = kani::any();
    let unused: [u16; 2] = kani::any();
    let c: char = kani::any();
    let n: usize = kani::any();
    let ws: [u32; 2] = kani::any();
    let cs: [char; 2] = kani::any();
    kani::assume(n < 3);
    let p = bv::packed(x);
    let (a, _b) = bv::packed_get(&p);
    assert!(
        !(a == 77 && xs[n] == 0x5A && c == '\u{e9}' && ws[1] == 0xDEAD && cs[1] == '\u{1F600}'),
        "selftest: deliberately wrong"
    );
    let _ = unused;
}
