//! Native stand-in for the `kani` API, used only when a counterexample is REPLAYED: the same
//! harness function that CBMC refuted is executed natively with `any()` returning the model's
//! values in call order.  An assertion that fails here is a reproduced counterexample.
use std::cell::RefCell;
use std::collections::VecDeque;

thread_local! {
    static QUEUE: RefCell<VecDeque<u128>> = RefCell::new(VecDeque::new());
}

pub fn load(vals: &[u128]) {
    QUEUE.with(|q| {
        let mut q = q.borrow_mut();
        q.clear();
        q.extend(vals.iter().copied());
    });
}

pub fn remaining() -> usize {
    QUEUE.with(|q| q.borrow().len())
}

thread_local! {
    static PADDED: std::cell::Cell<usize> = std::cell::Cell::new(0);
}

/// Inputs the counterexample's trace does not contain are requested only AFTER the point where the
/// refuted assertion sits (the trace stops there); they are padded with zeros and counted.
fn pop() -> u128 {
    QUEUE.with(|q| q.borrow_mut().pop_front()).unwrap_or_else(|| {
        PADDED.with(|p| p.set(p.get() + 1));
        0
    })
}

pub fn padded() -> usize {
    PADDED.with(|p| p.get())
}

pub trait Arbitrary: Sized {
    fn any() -> Self;
}

macro_rules! arb_int {
    ($($t:ty),*) => {$( impl Arbitrary for $t { fn any() -> Self { pop() as $t } } )*};
}
arb_int!(u8, u16, u32, u64, u128, usize, i8, i16, i32, i64, i128, isize);

impl Arbitrary for bool {
    fn any() -> Self {
        pop() != 0
    }
}

impl Arbitrary for char {
    fn any() -> Self {
        char::from_u32(pop() as u32).unwrap_or_else(|| panic!("SHIM: assumption violated (invalid char in model)"))
    }
}

impl<T: Arbitrary, const N: usize> Arbitrary for [T; N] {
    fn any() -> Self {
        core::array::from_fn(|_| T::any())
    }
}

pub fn any<T: Arbitrary>() -> T {
    T::any()
}

pub fn assume(cond: bool) {
    if !cond {
        panic!("SHIM: assumption violated by the model values");
    }
}

#[macro_export]
macro_rules! shim_cover {
    ($($t:tt)*) => {};
}
pub use crate::shim_cover as cover;
