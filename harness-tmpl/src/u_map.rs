//! U-map: CodeMapper::new on symbolic frequency tables (<= 3 entries): chars with non-zero
//! frequency map bijectively onto 0..alphabet_size, everything else (absent, or beyond the
//! table) gives None, and every code stays below the block length the builder derives from it.
#[cfg(not(kani))]
use crate::shim as kani;
use daachorse::charwise::verif as cv;

crate::lookup! { new_bijective }

// any() order: freqs: [u32; 3], len: usize, c: char
#[cfg_attr(kani, kani::proof)]
#[cfg_attr(kani, kani::unwind(7))]
pub fn new_bijective() {
    let freqs: [u32; 3] = kani::any();
    let len: usize = kani::any();
    kani::assume(len <= 3);
    let m = cv::mapper_new(&freqs[..len]);
    let asz = cv::mapper_alphabet_size(&m);
    let mut nz = 0u32;
    let mut i = 0;
    while i < 3 {
        if i < len && freqs[i] != 0 {
            nz += 1;
        }
        i += 1;
    }
    assert!(asz == nz, "U-map: alphabet_size != number of used chars");
    let block = asz.next_power_of_two().max(2);
    let mut seen = [false; 3];
    let mut i = 0;
    while i < 3 {
        if i < len {
            let ch = unsafe { char::from_u32_unchecked(i as u32) };
            let g = cv::mapper_get(&m, ch);
            if freqs[i] != 0 {
                assert!(g.is_some(), "U-map: used char is unmapped");
                let code = g.unwrap();
                assert!(code < asz && code < block, "U-map: code outside the alphabet/block");
                assert!(!seen[code as usize], "U-map: two chars share a code");
                seen[code as usize] = true;
            } else {
                assert!(g.is_none(), "U-map: unused char is mapped");
            }
        }
        i += 1;
    }
    let c: char = kani::any();
    kani::assume(c as usize >= len);
    assert!(cv::mapper_get(&m, c).is_none(), "U-map: char beyond the table is mapped");
    kani::cover!(nz == 3, "U-map: three used chars (opt)");
    kani::cover!(nz == 2, "U-map: two used chars");
    core::mem::forget(m);
}
