//! U-ser: serialize -> append two arbitrary bytes -> deserialize, for every component type of an
//! automaton image, on arbitrary values:   deserialize(serialize(x) ++ t) == (x, t),
//! |serialize(x)| == serialized_bytes(), serialize(deserialize(b)) == b.
#[cfg(not(kani))]
use crate::shim as kani;
use daachorse::bytewise::verif as bv;
use daachorse::charwise::verif as cv;
use daachorse::{MatchKind, Serializable};

crate::lookup! {
    prim_u8, prim_u16, prim_u32, prim_u64, prim_u128, prim_i8, prim_i16, prim_i32, prim_i64,
    prim_i128, prim_usize, prim_isize, empty, opt_nz, packed, match_kind, match_kind_bytes,
    bw_state, cw_state, vec_u32, vec_bw_state, vec_cw_state, mapper, user_type_output,
    bw_output_u8, bw_output_u16, bw_output_u32, bw_output_u64, bw_output_u128, bw_output_i8,
    bw_output_i16, bw_output_i32, bw_output_i64, bw_output_i128, bw_output_usize, bw_output_isize,
    vec_bw_output_u8, vec_bw_output_u16, vec_bw_output_u32, vec_bw_output_u64, vec_bw_output_u128,
    vec_bw_output_i128, vec_cw_output_u8, vec_cw_output_u32, vec_cw_output_u128,
    bw_output_empty, vec_bw_output_empty,
}

fn tail_ok(rest: &[u8], t: [u8; 2]) -> bool {
    rest.len() == 2 && rest[0] == t[0] && rest[1] == t[1]
}

fn same(a: &[u8], b: &[u8], n: usize) -> bool {
    if a.len() < n || b.len() < n {
        return false;
    }
    let mut i = 0;
    let mut ok = true;
    while i < n {
        if a[i] != b[i] {
            ok = false;
        }
        i += 1;
    }
    ok
}

fn roundtrip_serializable<T: Serializable + PartialEq + Copy>(x: T, t: [u8; 2]) {
    let mut v = Vec::with_capacity(40);
    x.serialize_to_vec(&mut v);
    let n = v.len();
    assert!(n == T::serialized_bytes(), "U-ser: length != serialized_bytes()");
    v.push(t[0]);
    v.push(t[1]);
    let (y, rest) = T::deserialize_from_slice(&v);
    assert!(y == x, "U-ser: value changed by the round trip");
    assert!(tail_ok(rest, t), "U-ser: trailing bytes not handed back untouched");
    let mut w = Vec::with_capacity(40);
    y.serialize_to_vec(&mut w);
    assert!(w.len() == n && same(&v, &w, n), "U-ser: re-serialising gives different bytes");
    core::mem::forget(v);
    core::mem::forget(w);
}

macro_rules! prim {
    ($name:ident, $t:ty, $u:literal) => {
        // any() order: x, t: [u8; 2]
        #[cfg_attr(kani, kani::proof)]
        #[cfg_attr(kani, kani::unwind($u))]
        pub fn $name() {
            let x: $t = kani::any();
            let t: [u8; 2] = kani::any();
            roundtrip_serializable(x, t);
        }
    };
}
prim!(prim_u8, u8, 20);
prim!(prim_u16, u16, 20);
prim!(prim_u32, u32, 20);
prim!(prim_u64, u64, 20);
prim!(prim_u128, u128, 20);
prim!(prim_i8, i8, 20);
prim!(prim_i16, i16, 20);
prim!(prim_i32, i32, 20);
prim!(prim_i64, i64, 20);
prim!(prim_i128, i128, 20);
prim!(prim_usize, usize, 20);
prim!(prim_isize, isize, 20);

#[cfg_attr(kani, kani::proof)]
#[cfg_attr(kani, kani::unwind(6))]
pub fn empty() {
    let t: [u8; 2] = kani::any();
    let mut v = Vec::with_capacity(40);
    daachorse::Empty.serialize_to_vec(&mut v);
    assert!(v.len() == 0 && <daachorse::Empty as Serializable>::serialized_bytes() == 0);
    v.push(t[0]);
    v.push(t[1]);
    let (_e, rest) = <daachorse::Empty as Serializable>::deserialize_from_slice(&v);
    assert!(tail_ok(rest, t), "U-ser: Empty consumed bytes");
    core::mem::forget(v);
}

// any() order: x: u32, t
#[cfg_attr(kani, kani::proof)]
#[cfg_attr(kani, kani::unwind(12))]
pub fn opt_nz() {
    let x: u32 = kani::any();
    let t: [u8; 2] = kani::any();
    roundtrip_serializable(core::num::NonZeroU32::new(x), t);
    kani::cover!(x == 0, "U-ser: None");
}

// any() order: x: u32, t, a: u32, b: u8
#[cfg_attr(kani, kani::proof)]
#[cfg_attr(kani, kani::unwind(12))]
pub fn packed() {
    let x: u32 = kani::any();
    let t: [u8; 2] = kani::any();
    let p = bv::packed(x);
    let mut v = Vec::with_capacity(40);
    bv::packed_serialize(&p, &mut v);
    let n = v.len();
    assert!(n == bv::packed_serialized_bytes());
    v.push(t[0]);
    v.push(t[1]);
    let (q, rest) = bv::packed_deserialize(&v);
    assert!(q == p && tail_ok(rest, t), "U-ser: packed word round trip");
    // accessor / mutator laws of the 24+8 bit packing (U-pack)
    let (a0, b0) = bv::packed_get(&p);
    assert!(a0 == x >> 8 && b0 == (x & 0xff) as u8, "U-pack: a()/b()");
    let a: u32 = kani::any();
    let b: u8 = kani::any();
    let mut r = p;
    let fits = bv::packed_set_a(&mut r, a);
    assert!(fits == (a <= 0x00ff_ffff), "U-pack: U24 range check");
    if fits {
        assert!(bv::packed_get(&r) == (a, b0), "U-pack: set_a disturbs b or loses bits");
    }
    let mut r2 = p;
    bv::packed_set_b(&mut r2, b);
    assert!(bv::packed_get(&r2) == (a0, b), "U-pack: set_b disturbs a");
    core::mem::forget(v);
}

// any() order: which: u8, t
#[cfg_attr(kani, kani::proof)]
#[cfg_attr(kani, kani::unwind(6))]
pub fn match_kind() {
    let which: u8 = kani::any();
    kani::assume(which < 3);
    let k = match which {
        0 => MatchKind::Standard,
        1 => MatchKind::LeftmostLongest,
        _ => MatchKind::LeftmostFirst,
    };
    let t: [u8; 2] = kani::any();
    roundtrip_serializable(k, t);
    assert!(MatchKind::from(u8::from(k)) == k, "U-ser: MatchKind <-> u8");
    kani::cover!(which == 2, "U-ser: leftmost-first");
}

// every byte a serialised image can contain decodes to the kind that encodes to it
// any() order: b: u8
#[cfg_attr(kani, kani::proof)]
#[cfg_attr(kani, kani::unwind(6))]
pub fn match_kind_bytes() {
    let b: u8 = kani::any();
    kani::assume(b < 3);
    let src = [b, 0x5a];
    let (k, rest) = MatchKind::deserialize_from_slice(&src);
    assert!(u8::from(k) == b && rest.len() == 1 && rest[0] == 0x5a, "U-ser: MatchKind byte decode");
}

// any() order: w: [u32; 3], t, bytes: [u8; 12]
#[cfg_attr(kani, kani::proof)]
#[cfg_attr(kani, kani::unwind(16))]
pub fn bw_state() {
    let w: [u32; 3] = kani::any();
    let t: [u8; 2] = kani::any();
    let s = bv::state(w[0], w[1], w[2]);
    let mut v = Vec::with_capacity(40);
    bv::state_serialize(&s, &mut v);
    let n = v.len();
    assert!(n == bv::state_serialized_bytes() && n == 12, "U-ser: bytewise State is 12 bytes");
    v.push(t[0]);
    v.push(t[1]);
    let (s2, rest) = bv::state_deserialize(&v);
    assert!(bv::state_words(&s2) == w && tail_ok(rest, t), "U-ser: bytewise State round trip");
    let (base, check, fail, opos) = bv::state_fields(&s2);
    assert!(base == w[0] && fail == w[1] && check == (w[2] & 0xff) as u8 && opos == w[2] >> 8,
        "U-ser: bytewise State accessors vs words");
    // bytes -> state -> bytes
    let bytes: [u8; 12] = kani::any();
    let (s3, rest3) = bv::state_deserialize(&bytes);
    assert!(rest3.len() == 0);
    let mut v3 = Vec::with_capacity(16);
    bv::state_serialize(&s3, &mut v3);
    assert!(v3.len() == 12 && same(&v3, &bytes, 12), "U-ser: bytes -> State -> bytes");
    // setters agree with the raw constructor
    if let Some(s4) = bv::state_via_setters(w[0], (w[2] & 0xff) as u8, w[1], w[2] >> 8) {
        assert!(bv::state_words(&s4) == w, "U-ser: State setters vs raw words");
    }
    core::mem::forget(v);
    core::mem::forget(v3);
}

// any() order: w: [u32; 4], t
#[cfg_attr(kani, kani::proof)]
#[cfg_attr(kani, kani::unwind(20))]
pub fn cw_state() {
    let w: [u32; 4] = kani::any();
    let t: [u8; 2] = kani::any();
    let s = cv::state(w[0], w[1], w[2], w[3]);
    let mut v = Vec::with_capacity(40);
    cv::state_serialize(&s, &mut v);
    let n = v.len();
    assert!(n == cv::state_serialized_bytes() && n == 16);
    v.push(t[0]);
    v.push(t[1]);
    let (s2, rest) = cv::state_deserialize(&v);
    assert!(cv::state_words(&s2) == w && tail_ok(rest, t), "U-ser: charwise State round trip");
    assert!(cv::state_fields(&s2) == (w[0], w[1], w[2], w[3]), "U-ser: charwise State accessors");
    let s4 = cv::state_via_setters(w[0], w[1], w[2], w[3]);
    if w[0] != 0 {
        assert!(cv::state_words(&s4) == w, "U-ser: charwise State setters");
    }
    let mut w2 = Vec::with_capacity(40);
    cv::state_serialize(&s2, &mut w2);
    assert!(w2.len() == n && same(&v, &w2, n), "U-ser: charwise State re-serialise");
    core::mem::forget(v);
    core::mem::forget(w2);
}

macro_rules! output_rt {
    ($name:ident, $m:ident, $t:ty, $u:literal) => {
        // any() order: val, len: u32, par: u32, t
        #[cfg_attr(kani, kani::proof)]
        #[cfg_attr(kani, kani::unwind($u))]
        pub fn $name() {
            let val: $t = kani::any();
            let len: u32 = kani::any();
            let par: u32 = kani::any();
            let t: [u8; 2] = kani::any();
            let o = $m::output(val, len, par);
            let mut v = Vec::with_capacity(40);
            $m::output_serialize(&o, &mut v);
            let n = v.len();
            assert!(n == $m::output_serialized_bytes::<$t>() && n == core::mem::size_of::<$t>() + 8,
                "U-ser: Output<V> width");
            v.push(t[0]);
            v.push(t[1]);
            let (o2, rest) = $m::output_deserialize::<$t>(&v);
            assert!($m::output_fields(&o2) == (val, len, par) && tail_ok(rest, t), "U-ser: Output<V> round trip");
            let mut w = Vec::with_capacity(40);
            $m::output_serialize(&o2, &mut w);
            assert!(w.len() == n && same(&v, &w, n), "U-ser: Output<V> re-serialise");
            core::mem::forget(v);
            core::mem::forget(w);
        }
    };
}
output_rt!(bw_output_u8, bv, u8, 28);
output_rt!(bw_output_u16, bv, u16, 28);
output_rt!(bw_output_u32, bv, u32, 28);
output_rt!(bw_output_u64, bv, u64, 28);
output_rt!(bw_output_u128, bv, u128, 28);
output_rt!(bw_output_i8, bv, i8, 28);
output_rt!(bw_output_i16, bv, i16, 28);
output_rt!(bw_output_i32, bv, i32, 28);
output_rt!(bw_output_i64, bv, i64, 28);
output_rt!(bw_output_i128, bv, i128, 28);
output_rt!(bw_output_usize, bv, usize, 28);
output_rt!(bw_output_isize, bv, isize, 28);

// Empty has no PartialEq: compare the other two fields and the byte image.
// any() order: len, par, t
#[cfg_attr(kani, kani::proof)]
#[cfg_attr(kani, kani::unwind(14))]
pub fn bw_output_empty() {
    let len: u32 = kani::any();
    let par: u32 = kani::any();
    let t: [u8; 2] = kani::any();
    let o = bv::output(daachorse::Empty, len, par);
    let mut v = Vec::with_capacity(40);
    bv::output_serialize(&o, &mut v);
    let n = v.len();
    assert!(n == 8 && n == bv::output_serialized_bytes::<daachorse::Empty>());
    v.push(t[0]);
    v.push(t[1]);
    let (o2, rest) = bv::output_deserialize::<daachorse::Empty>(&v);
    let (_e, l2, p2) = bv::output_fields(&o2);
    assert!(l2 == len && p2 == par && tail_ok(rest, t), "U-ser: Output<Empty> round trip");
    core::mem::forget(v);
}

/// A user-defined fixed-width value type, as the public `Serializable` trait allows.  Its wire
/// width (3 bytes) differs from its in-memory size (4 bytes, alignment padding).
#[derive(Clone, Copy, PartialEq, Eq)]
pub struct Rgb {
    id: u16,
    cat: u8,
}

#[allow(non_snake_case)]
fn Rgb(b: [u8; 3]) -> Rgb {
    Rgb { id: u16::from_le_bytes([b[0], b[1]]), cat: b[2] }
}

impl Serializable for Rgb {
    fn serialize_to_vec(&self, dst: &mut Vec<u8>) {
        let b = self.id.to_le_bytes();
        dst.push(b[0]);
        dst.push(b[1]);
        dst.push(self.cat);
    }
    fn deserialize_from_slice(src: &[u8]) -> (Self, &[u8]) {
        (Rgb([src[0], src[1], src[2]]), &src[3..])
    }
    fn serialized_bytes() -> usize {
        3
    }
}

// any() order: rgb: [u8; 3], len, par, t
#[cfg_attr(kani, kani::proof)]
#[cfg_attr(kani, kani::unwind(20))]
pub fn user_type_output() {
    let rgb: [u8; 3] = kani::any();
    let len: u32 = kani::any();
    let par: u32 = kani::any();
    let t: [u8; 2] = kani::any();
    let o = bv::output(Rgb(rgb), len, par);
    let mut v = Vec::with_capacity(40);
    bv::output_serialize(&o, &mut v);
    let n = v.len();
    assert!(n == 11 && n == bv::output_serialized_bytes::<Rgb>(), "U-ser: user type width");
    v.push(t[0]);
    v.push(t[1]);
    let (o2, rest) = bv::output_deserialize::<Rgb>(&v);
    let (val, l2, p2) = bv::output_fields(&o2);
    assert!(val == Rgb(rgb) && l2 == len && p2 == par && tail_ok(rest, t), "U-ser: user type round trip");
    // and inside a vector
    let (back, nbytes) = bv::outputs_serialize(vec![o, o2], &mut Vec::new());
    assert!(nbytes == 4 + 2 * 11, "U-ser: Vec<Output<user>> serialized_bytes()");
    core::mem::forget(v);
    core::mem::forget(back);
}

// Vectors: element counts 0..=3 are enumerated concretely inside the harness (a symbolic length
// made every Vec operation symbolic-sized: 8 GB and no verdict); element CONTENT is symbolic.
// any() order: xs: [u32; 3], t
#[cfg_attr(kani, kani::proof)]
#[cfg_attr(kani, kani::unwind(6))]
pub fn vec_u32() {
    let xs: [u32; 3] = kani::any();
    let t: [u8; 2] = kani::any();
    let mut n = 0;
    while n <= 3 {
        let mut x = Vec::with_capacity(3);
        let mut i = 0;
        while i < n {
            x.push(xs[i]);
            i += 1;
        }
        let mut v = Vec::with_capacity(32);
        let nb = bv::vec_u32_serialize(&x, &mut v);
        assert!(v.len() == nb && nb == 4 + 4 * n, "U-ser: Vec<u32> length");
        v.push(t[0]);
        v.push(t[1]);
        let (y, rest) = bv::vec_u32_deserialize(&v);
        assert!(y.len() == n && tail_ok(rest, t), "U-ser: Vec<u32> element count / remainder");
        let mut i = 0;
        while i < n {
            assert!(y[i] == xs[i], "U-ser: Vec<u32> element");
            i += 1;
        }
        core::mem::forget(x);
        core::mem::forget(y);
        core::mem::forget(v);
        n += 1;
    }
}

macro_rules! vec_state_rt {
    ($name:ident, $m:ident, $words:literal, $mk:expr, $u:literal) => {
        // any() order: ws: [[u32; words]; 3], t
        #[cfg_attr(kani, kani::proof)]
        #[cfg_attr(kani, kani::unwind($u))]
        pub fn $name() {
            let ws: [[u32; $words]; 3] = kani::any();
            let t: [u8; 2] = kani::any();
            let mut n = 0;
            while n <= 3 {
                let mut x = Vec::with_capacity(3);
                let mut i = 0;
                while i < n {
                    x.push(($mk)(ws[i]));
                    i += 1;
                }
                let mut v = Vec::with_capacity(64);
                let (x, nb) = $m::states_serialize(x, &mut v);
                assert!(v.len() == nb && nb == 4 + 4 * $words * n, "U-ser: Vec<State> length");
                v.push(t[0]);
                v.push(t[1]);
                let (y, rest) = $m::states_deserialize(&v);
                assert!(y.len() == n && tail_ok(rest, t), "U-ser: Vec<State> count / remainder");
                let mut i = 0;
                while i < n {
                    assert!($m::state_words(&y[i]) == ws[i], "U-ser: Vec<State> element");
                    i += 1;
                }
                core::mem::forget(x);
                core::mem::forget(y);
                core::mem::forget(v);
                n += 1;
            }
        }
    };
}
vec_state_rt!(vec_bw_state, bv, 3, |w: [u32; 3]| bv::state(w[0], w[1], w[2]), 6);
vec_state_rt!(vec_cw_state, cv, 4, |w: [u32; 4]| cv::state(w[0], w[1], w[2], w[3]), 6);

macro_rules! vec_output_rt {
    ($name:ident, $m:ident, $t:ty, $u:literal) => {
        // any() order: vals: [T; 3], lens: [u32; 3], pars: [u32; 3], t
        #[cfg_attr(kani, kani::proof)]
        #[cfg_attr(kani, kani::unwind($u))]
        pub fn $name() {
            let vals: [$t; 3] = kani::any();
            let lens: [u32; 3] = kani::any();
            let pars: [u32; 3] = kani::any();
            let t: [u8; 2] = kani::any();
            let mut n = 0;
            while n <= 3 {
                let mut x = Vec::with_capacity(3);
                let mut i = 0;
                while i < n {
                    x.push($m::output(vals[i], lens[i], pars[i]));
                    i += 1;
                }
                let mut v = Vec::with_capacity(96);
                let (x, nb) = $m::outputs_serialize(x, &mut v);
                let w = core::mem::size_of::<$t>() + 8;
                assert!(v.len() == nb && nb == 4 + w * n, "U-ser: Vec<Output<V>> length");
                v.push(t[0]);
                v.push(t[1]);
                let (y, rest) = $m::outputs_deserialize::<$t>(&v);
                assert!(y.len() == n && tail_ok(rest, t), "U-ser: Vec<Output<V>> count / remainder");
                let mut i = 0;
                while i < n {
                    assert!($m::output_fields(&y[i]) == (vals[i], lens[i], pars[i]), "U-ser: Vec<Output<V>> element");
                    i += 1;
                }
                core::mem::forget(x);
                core::mem::forget(y);
                core::mem::forget(v);
                n += 1;
            }
        }
    };
}
vec_output_rt!(vec_bw_output_u8, bv, u8, 6);
vec_output_rt!(vec_bw_output_u16, bv, u16, 6);
vec_output_rt!(vec_bw_output_u32, bv, u32, 6);
vec_output_rt!(vec_bw_output_u64, bv, u64, 6);
vec_output_rt!(vec_bw_output_u128, bv, u128, 6);
vec_output_rt!(vec_bw_output_i128, bv, i128, 6);
vec_output_rt!(vec_cw_output_u8, cv, u8, 6);
vec_output_rt!(vec_cw_output_u32, cv, u32, 6);
vec_output_rt!(vec_cw_output_u128, cv, u128, 6);

// any() order: lens, pars, t
#[cfg_attr(kani, kani::proof)]
#[cfg_attr(kani, kani::unwind(6))]
pub fn vec_bw_output_empty() {
    let lens: [u32; 3] = kani::any();
    let pars: [u32; 3] = kani::any();
    let t: [u8; 2] = kani::any();
    let mut n = 0;
    while n <= 3 {
        let mut x = Vec::with_capacity(3);
        let mut i = 0;
        while i < n {
            x.push(bv::output(daachorse::Empty, lens[i], pars[i]));
            i += 1;
        }
        let mut v = Vec::with_capacity(64);
        let (x, nb) = bv::outputs_serialize(x, &mut v);
        assert!(v.len() == nb && nb == 4 + 8 * n);
        v.push(t[0]);
        v.push(t[1]);
        let (y, rest) = bv::outputs_deserialize::<daachorse::Empty>(&v);
        assert!(y.len() == n && tail_ok(rest, t), "U-ser: Vec<Output<Empty>> count / remainder");
        let mut i = 0;
        while i < n {
            let (_e, l, p) = bv::output_fields(&y[i]);
            assert!(l == lens[i] && p == pars[i], "U-ser: Vec<Output<Empty>> element");
            i += 1;
        }
        core::mem::forget(x);
        core::mem::forget(y);
        core::mem::forget(v);
        n += 1;
    }
}

// CodeMapper (table of 0..=2 entries, enumerated; content symbolic)
// any() order: tab: [u32; 2], asz: u32, t
#[cfg_attr(kani, kani::proof)]
#[cfg_attr(kani, kani::unwind(6))]
pub fn mapper() {
    let tab: [u32; 2] = kani::any();
    let asz: u32 = kani::any();
    let t: [u8; 2] = kani::any();
    let mut n = 0;
    while n <= 2 {
        let mut table = Vec::with_capacity(2);
        let mut i = 0;
        while i < n {
            table.push(tab[i]);
            i += 1;
        }
        let m = cv::mapper_from_raw(table, asz);
        let mut v = Vec::with_capacity(32);
        let nb = cv::mapper_serialize(&m, &mut v);
        assert!(v.len() == nb && nb == 4 + 4 * n + 4, "U-ser: CodeMapper length");
        v.push(t[0]);
        v.push(t[1]);
        let (m2, rest) = cv::mapper_deserialize(&v);
        let (tab2, asz2) = cv::mapper_raw(&m2);
        assert!(asz2 == asz && tab2.len() == n && tail_ok(rest, t), "U-ser: CodeMapper round trip");
        let mut i = 0;
        while i < n {
            assert!(tab2[i] == tab[i], "U-ser: CodeMapper table element");
            i += 1;
        }
        core::mem::forget(m);
        core::mem::forget(m2);
        core::mem::forget(v);
        n += 1;
    }
}
