//! U-utf8: the hand-written UTF-8 decoder on every pair of Unicode scalar values.
//! Kani's checks make `unwrap_unchecked` on None (a read past the end) and
//! `char::from_u32_unchecked` on a non-scalar value failed properties.
#[cfg(not(kani))]
use crate::shim as kani;
use daachorse::charwise::iter::CharWithEndOffsetIterator;

crate::lookup! { two_chars, three_chars_offsets }

// any() order: c1: char, c2: char
#[cfg_attr(kani, kani::proof)]
#[cfg_attr(kani, kani::unwind(6))]
pub fn two_chars() {
    let c1: char = kani::any();
    let c2: char = kani::any();
    let mut buf = [0u8; 8];
    let n1 = c1.encode_utf8(&mut buf).len();
    let n2 = c2.encode_utf8(&mut buf[n1..]).len();
    let mut it = unsafe { CharWithEndOffsetIterator::new(buf[..n1 + n2].iter().copied()) };
    let a = it.next();
    let b = it.next();
    let c = it.next();
    assert!(a == Some((n1, c1)), "U-utf8: first char or its end offset is wrong");
    assert!(b == Some((n1 + n2, c2)), "U-utf8: second char or its end offset is wrong");
    assert!(c.is_none(), "U-utf8: decoder invents a character");
    kani::cover!(n1 == 4 && n2 == 1, "U-utf8: 4-byte then 1-byte");
    kani::cover!(n1 == 2 && n2 == 3, "U-utf8: 2-byte then 3-byte");
}

// Offsets are cumulative and land on char boundaries for 3 chars of any widths.
// any() order: cs: [char; 3]
#[cfg_attr(kani, kani::proof)]
#[cfg_attr(kani, kani::unwind(6))]
pub fn three_chars_offsets() {
    let cs: [char; 3] = kani::any();
    let mut buf = [0u8; 12];
    let mut n = 0;
    let mut ends = [0usize; 3];
    let mut i = 0;
    while i < 3 {
        n += cs[i].encode_utf8(&mut buf[n..]).len();
        ends[i] = n;
        i += 1;
    }
    let s = unsafe { core::str::from_utf8_unchecked(&buf[..n]) };
    let mut it = unsafe { CharWithEndOffsetIterator::new(s.as_bytes().iter().copied()) };
    let mut i = 0;
    while i < 3 {
        let r = it.next();
        assert!(r == Some((ends[i], cs[i])), "U-utf8: wrong char/offset in a 3-char text");
        assert!(s.is_char_boundary(ends[i]), "U-utf8: offset is not a char boundary");
        i += 1;
    }
    assert!(it.next().is_none());
}
