//! U-val: for every supported value type, an automaton whose single output carries an ARBITRARY
//! value of that type returns exactly that value (and sane offsets) from every search method.
//! Tables are hand-made 4-slot automata for the one-letter pattern set {"\x01"}.
#[cfg(not(kani))]
use crate::shim as kani;
use daachorse::bytewise::verif as bv;
use daachorse::charwise::verif as cv;
use daachorse::{CharwiseDoubleArrayAhoCorasick, DoubleArrayAhoCorasick, Match, MatchKind};

crate::lookup! {
    bw_u8, bw_u16, bw_u32, bw_u64, bw_u128, bw_i8, bw_i16, bw_i32, bw_i64, bw_i128, bw_usize, bw_isize, bw_empty, bw_u8_find, bw_u8_nosuf, bw_u8_lm, bw_u8_lf, bw_u128_find, bw_u128_nosuf, bw_u128_lm, bw_u128_lf, bw_empty_find, bw_empty_nosuf, bw_empty_lm, bw_empty_lf, cw_u8, cw_u16, cw_u32, cw_u64, cw_u128, cw_i8, cw_i16, cw_i32, cw_i64, cw_i128, cw_usize, cw_isize, cw_empty, cw_u8_find, cw_u8_nosuf, cw_u8_lm, cw_u8_lf, cw_u128_find, cw_u128_nosuf, cw_u128_lm, cw_u128_lf, cw_empty_find, cw_empty_nosuf, cw_empty_lm, cw_empty_lf,
}

fn bw_table<V: Copy>(val: V, kind: MatchKind) -> DoubleArrayAhoCorasick<V> {
    let lm = !matches!(kind, MatchKind::Standard);
    let st = [
        bv::state(2, 0, 0xFF),
        bv::state(0, 0, 0xFF),
        bv::state(0, 0, 0xFF),
        bv::state(0, if lm { 1 } else { 0 }, (1 << 8) | 1),
    ];
    bv::from_raw(Vec::from(st), Vec::from([bv::output(val, 1, 0)]), kind, 2)
}

fn cw_table<V: Copy>(val: V, kind: MatchKind) -> CharwiseDoubleArrayAhoCorasick<V> {
    let lm = !matches!(kind, MatchKind::Standard);
    let st = [
        cv::state(2, 1, 1, 0),
        cv::state(0, 1, 1, 0),
        cv::state(0, 0, if lm { 1 } else { 0 }, 1),
        cv::state(0, 1, 1, 0),
    ];
    let mapper = cv::mapper_from_raw(Vec::from([u32::MAX, 0]), 1);
    cv::from_raw(Vec::from(st), mapper, Vec::from([cv::output(val, 1, 0)]), kind, 2)
}

/// The n-th result must be the n-th position holding the letter, with the registered value.
macro_rules! check_seq {
    ($it:expr, $h:ident, $len:ident, $val:ident, $eq:expr, $hit:expr) => {{
        let mut it = $it;
        let mut i = 0;
        while i < 2 {
            if i < $len && $hit($h[i]) {
                let m = it.next();
                assert!(m.is_some(), "U-val: occurrence missed");
                let m = m.unwrap();
                assert!(m.end() == i + 1 && m.start() == i, "U-val: offsets");
                assert!(m.start() < m.end() && m.end() <= $len, "U-val: 0 <= start < end <= len");
                assert!($eq(m.value(), $val), "U-val: value is not the registered one");
            }
            i += 1;
        }
        assert!(it.next().is_none(), "U-val: extra match");
    }};
}

// One harness per (variant, value type, search method): each is a distinct instantiation of the
// generic iterator code.  `ovl` exists for every type; the other methods for u8, u128 and Empty.
macro_rules! val_harness {
    (bw, $name:ident, $t:ty, $eq:expr, $any:expr, $kind:expr, $call:ident) => {
        // any() order: val, h: [u8; 2], len
        #[cfg_attr(kani, kani::proof)]
        #[cfg_attr(kani, kani::unwind(5))]
        pub fn $name() {
            let val: $t = $any;
            let h: [u8; 2] = kani::any();
            let len: usize = kani::any();
            kani::assume(len <= 2 && h[0] < 4 && h[1] < 4);
            let hs = &h[..len];
            let pma = bw_table::<$t>(val, $kind);
            check_seq!(pma.$call(hs), h, len, val, $eq, |b: u8| b == 1);
            kani::cover!(len == 2 && h[0] == 1 && h[1] == 1, "U-val: two matches");
            core::mem::forget(pma);
        }
    };
    (cw, $name:ident, $t:ty, $eq:expr, $any:expr, $kind:expr, $call:ident) => {
        // any() order: val, h: [u8; 2], len    (ASCII text)
        #[cfg_attr(kani, kani::proof)]
        #[cfg_attr(kani, kani::unwind(5))]
        pub fn $name() {
            let val: $t = $any;
            let h: [u8; 2] = kani::any();
            let len: usize = kani::any();
            kani::assume(len <= 2 && h[0] < 0x80 && h[1] < 0x80);
            let hs = unsafe { core::str::from_utf8_unchecked(&h[..len]) };
            let pma = cw_table::<$t>(val, $kind);
            check_seq!(pma.$call(hs), h, len, val, $eq, |b: u8| b == 1);
            kani::cover!(len == 2 && h[0] == 1 && h[1] == 1, "U-val: two matches");
            core::mem::forget(pma);
        }
    };
}
val_harness!(bw, bw_u8, u8, |a: u8, b: u8| a == b, kani::any(), MatchKind::Standard, find_overlapping_iter);
val_harness!(bw, bw_u16, u16, |a: u16, b: u16| a == b, kani::any(), MatchKind::Standard, find_overlapping_iter);
val_harness!(bw, bw_u32, u32, |a: u32, b: u32| a == b, kani::any(), MatchKind::Standard, find_overlapping_iter);
val_harness!(bw, bw_u64, u64, |a: u64, b: u64| a == b, kani::any(), MatchKind::Standard, find_overlapping_iter);
val_harness!(bw, bw_u128, u128, |a: u128, b: u128| a == b, kani::any(), MatchKind::Standard, find_overlapping_iter);
val_harness!(bw, bw_i8, i8, |a: i8, b: i8| a == b, kani::any(), MatchKind::Standard, find_overlapping_iter);
val_harness!(bw, bw_i16, i16, |a: i16, b: i16| a == b, kani::any(), MatchKind::Standard, find_overlapping_iter);
val_harness!(bw, bw_i32, i32, |a: i32, b: i32| a == b, kani::any(), MatchKind::Standard, find_overlapping_iter);
val_harness!(bw, bw_i64, i64, |a: i64, b: i64| a == b, kani::any(), MatchKind::Standard, find_overlapping_iter);
val_harness!(bw, bw_i128, i128, |a: i128, b: i128| a == b, kani::any(), MatchKind::Standard, find_overlapping_iter);
val_harness!(bw, bw_usize, usize, |a: usize, b: usize| a == b, kani::any(), MatchKind::Standard, find_overlapping_iter);
val_harness!(bw, bw_isize, isize, |a: isize, b: isize| a == b, kani::any(), MatchKind::Standard, find_overlapping_iter);
val_harness!(bw, bw_empty, daachorse::Empty, |_a: daachorse::Empty, _b: daachorse::Empty| true, daachorse::Empty, MatchKind::Standard, find_overlapping_iter);
val_harness!(bw, bw_u8_find, u8, |a: u8, b: u8| a == b, kani::any(), MatchKind::Standard, find_iter);
val_harness!(bw, bw_u8_nosuf, u8, |a: u8, b: u8| a == b, kani::any(), MatchKind::Standard, find_overlapping_no_suffix_iter);
val_harness!(bw, bw_u8_lm, u8, |a: u8, b: u8| a == b, kani::any(), MatchKind::LeftmostLongest, leftmost_find_iter);
val_harness!(bw, bw_u8_lf, u8, |a: u8, b: u8| a == b, kani::any(), MatchKind::LeftmostFirst, leftmost_find_iter);
val_harness!(bw, bw_u128_find, u128, |a: u128, b: u128| a == b, kani::any(), MatchKind::Standard, find_iter);
val_harness!(bw, bw_u128_nosuf, u128, |a: u128, b: u128| a == b, kani::any(), MatchKind::Standard, find_overlapping_no_suffix_iter);
val_harness!(bw, bw_u128_lm, u128, |a: u128, b: u128| a == b, kani::any(), MatchKind::LeftmostLongest, leftmost_find_iter);
val_harness!(bw, bw_u128_lf, u128, |a: u128, b: u128| a == b, kani::any(), MatchKind::LeftmostFirst, leftmost_find_iter);
val_harness!(bw, bw_empty_find, daachorse::Empty, |_a: daachorse::Empty, _b: daachorse::Empty| true, daachorse::Empty, MatchKind::Standard, find_iter);
val_harness!(bw, bw_empty_nosuf, daachorse::Empty, |_a: daachorse::Empty, _b: daachorse::Empty| true, daachorse::Empty, MatchKind::Standard, find_overlapping_no_suffix_iter);
val_harness!(bw, bw_empty_lm, daachorse::Empty, |_a: daachorse::Empty, _b: daachorse::Empty| true, daachorse::Empty, MatchKind::LeftmostLongest, leftmost_find_iter);
val_harness!(bw, bw_empty_lf, daachorse::Empty, |_a: daachorse::Empty, _b: daachorse::Empty| true, daachorse::Empty, MatchKind::LeftmostFirst, leftmost_find_iter);
val_harness!(cw, cw_u8, u8, |a: u8, b: u8| a == b, kani::any(), MatchKind::Standard, find_overlapping_iter);
val_harness!(cw, cw_u16, u16, |a: u16, b: u16| a == b, kani::any(), MatchKind::Standard, find_overlapping_iter);
val_harness!(cw, cw_u32, u32, |a: u32, b: u32| a == b, kani::any(), MatchKind::Standard, find_overlapping_iter);
val_harness!(cw, cw_u64, u64, |a: u64, b: u64| a == b, kani::any(), MatchKind::Standard, find_overlapping_iter);
val_harness!(cw, cw_u128, u128, |a: u128, b: u128| a == b, kani::any(), MatchKind::Standard, find_overlapping_iter);
val_harness!(cw, cw_i8, i8, |a: i8, b: i8| a == b, kani::any(), MatchKind::Standard, find_overlapping_iter);
val_harness!(cw, cw_i16, i16, |a: i16, b: i16| a == b, kani::any(), MatchKind::Standard, find_overlapping_iter);
val_harness!(cw, cw_i32, i32, |a: i32, b: i32| a == b, kani::any(), MatchKind::Standard, find_overlapping_iter);
val_harness!(cw, cw_i64, i64, |a: i64, b: i64| a == b, kani::any(), MatchKind::Standard, find_overlapping_iter);
val_harness!(cw, cw_i128, i128, |a: i128, b: i128| a == b, kani::any(), MatchKind::Standard, find_overlapping_iter);
val_harness!(cw, cw_usize, usize, |a: usize, b: usize| a == b, kani::any(), MatchKind::Standard, find_overlapping_iter);
val_harness!(cw, cw_isize, isize, |a: isize, b: isize| a == b, kani::any(), MatchKind::Standard, find_overlapping_iter);
val_harness!(cw, cw_empty, daachorse::Empty, |_a: daachorse::Empty, _b: daachorse::Empty| true, daachorse::Empty, MatchKind::Standard, find_overlapping_iter);
val_harness!(cw, cw_u8_find, u8, |a: u8, b: u8| a == b, kani::any(), MatchKind::Standard, find_iter);
val_harness!(cw, cw_u8_nosuf, u8, |a: u8, b: u8| a == b, kani::any(), MatchKind::Standard, find_overlapping_no_suffix_iter);
val_harness!(cw, cw_u8_lm, u8, |a: u8, b: u8| a == b, kani::any(), MatchKind::LeftmostLongest, leftmost_find_iter);
val_harness!(cw, cw_u8_lf, u8, |a: u8, b: u8| a == b, kani::any(), MatchKind::LeftmostFirst, leftmost_find_iter);
val_harness!(cw, cw_u128_find, u128, |a: u128, b: u128| a == b, kani::any(), MatchKind::Standard, find_iter);
val_harness!(cw, cw_u128_nosuf, u128, |a: u128, b: u128| a == b, kani::any(), MatchKind::Standard, find_overlapping_no_suffix_iter);
val_harness!(cw, cw_u128_lm, u128, |a: u128, b: u128| a == b, kani::any(), MatchKind::LeftmostLongest, leftmost_find_iter);
val_harness!(cw, cw_u128_lf, u128, |a: u128, b: u128| a == b, kani::any(), MatchKind::LeftmostFirst, leftmost_find_iter);
val_harness!(cw, cw_empty_find, daachorse::Empty, |_a: daachorse::Empty, _b: daachorse::Empty| true, daachorse::Empty, MatchKind::Standard, find_iter);
val_harness!(cw, cw_empty_nosuf, daachorse::Empty, |_a: daachorse::Empty, _b: daachorse::Empty| true, daachorse::Empty, MatchKind::Standard, find_overlapping_no_suffix_iter);
val_harness!(cw, cw_empty_lm, daachorse::Empty, |_a: daachorse::Empty, _b: daachorse::Empty| true, daachorse::Empty, MatchKind::LeftmostLongest, leftmost_find_iter);
val_harness!(cw, cw_empty_lf, daachorse::Empty, |_a: daachorse::Empty, _b: daachorse::Empty| true, daachorse::Empty, MatchKind::LeftmostFirst, leftmost_find_iter);
