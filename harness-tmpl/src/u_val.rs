//! U-val: for every supported value type, an automaton whose single output carries an ARBITRARY
//! value of that type returns exactly that value (and sane offsets) from every search method.
//! Tables are hand-made 4-slot automata for the one-letter pattern set {"\x01"}.
#[cfg(not(kani))]
use crate::shim as kani;
use daachorse::bytewise::verif as bv;
use daachorse::charwise::verif as cv;
use daachorse::{CharwiseDoubleArrayAhoCorasick, DoubleArrayAhoCorasick, Match, MatchKind};

crate::lookup! {
    bw_u8, bw_u16, bw_u32, bw_u64, bw_u128, bw_i8, bw_i16, bw_i32, bw_i64, bw_i128, bw_usize, bw_isize, bw_empty,
    cw_u8, cw_u16, cw_u32, cw_u64, cw_u128, cw_i8, cw_i16, cw_i32, cw_i64, cw_i128, cw_usize, cw_isize, cw_empty,
}

fn bw_table<V: Copy>(val: V, kind: MatchKind) -> DoubleArrayAhoCorasick<V> {
    let lm = !matches!(kind, MatchKind::Standard);
    let st = [
        bv::state(2, 0, 0xFF),
        bv::state(0, 0, 0xFF),
        bv::state(0, 0, 0xFF),
        bv::state(0, if lm { 1 } else { 0 }, (1 << 8) | 1),
    ];
    bv::from_raw(Vec::from(st), Vec::from([bv::output(val, 1, 0)]), kind, 2)
}

fn cw_table<V: Copy>(val: V, kind: MatchKind) -> CharwiseDoubleArrayAhoCorasick<V> {
    let lm = !matches!(kind, MatchKind::Standard);
    let st = [
        cv::state(2, 1, 1, 0),
        cv::state(0, 1, 1, 0),
        cv::state(0, 0, if lm { 1 } else { 0 }, 1),
        cv::state(0, 1, 1, 0),
    ];
    let mapper = cv::mapper_from_raw(Vec::from([u32::MAX, 0]), 1);
    cv::from_raw(Vec::from(st), mapper, Vec::from([cv::output(val, 1, 0)]), kind, 2)
}

/// The n-th result must be the n-th position holding the letter, with the registered value.
macro_rules! check_seq {
    ($it:expr, $h:ident, $len:ident, $val:ident, $eq:expr, $hit:expr) => {{
        let mut it = $it;
        let mut i = 0;
        while i < 2 {
            if i < $len && $hit($h[i]) {
                let m = it.next();
                assert!(m.is_some(), "U-val: occurrence missed");
                let m = m.unwrap();
                assert!(m.end() == i + 1 && m.start() == i, "U-val: offsets");
                assert!(m.start() < m.end() && m.end() <= $len, "U-val: 0 <= start < end <= len");
                assert!($eq(m.value(), $val), "U-val: value is not the registered one");
            }
            i += 1;
        }
        assert!(it.next().is_none(), "U-val: extra match");
    }};
}

macro_rules! bw_val {
    ($name:ident, $t:ty, $eq:expr, $any:expr) => {
        // any() order: val, h: [u8; 2], len
        #[cfg_attr(kani, kani::proof)]
        #[cfg_attr(kani, kani::unwind(5))]
        pub fn $name() {
            let val: $t = $any;
            let h: [u8; 2] = kani::any();
            let len: usize = kani::any();
            kani::assume(len <= 2 && h[0] < 4 && h[1] < 4);
            let hs = &h[..len];
            let pma = bw_table::<$t>(val, MatchKind::Standard);
            check_seq!(pma.find_overlapping_iter(hs), h, len, val, $eq, |b: u8| b == 1);
            check_seq!(pma.find_iter(hs), h, len, val, $eq, |b: u8| b == 1);
            check_seq!(pma.find_overlapping_no_suffix_iter(hs), h, len, val, $eq, |b: u8| b == 1);
            check_seq!(pma.find_iter_from_iter(hs.iter().copied()), h, len, val, $eq, |b: u8| b == 1);
            let lm = bw_table::<$t>(val, MatchKind::LeftmostLongest);
            check_seq!(lm.leftmost_find_iter(hs), h, len, val, $eq, |b: u8| b == 1);
            let lf = bw_table::<$t>(val, MatchKind::LeftmostFirst);
            check_seq!(lf.leftmost_find_iter(hs), h, len, val, $eq, |b: u8| b == 1);
            kani::cover!(len == 2 && h[0] == 1 && h[1] == 1, "U-val: two matches");
            core::mem::forget(pma);
            core::mem::forget(lm);
            core::mem::forget(lf);
        }
    };
}

macro_rules! cw_val {
    ($name:ident, $t:ty, $eq:expr, $any:expr) => {
        // any() order: val, h: [u8; 2], len    (ASCII text: chars U+0000..U+0003)
        #[cfg_attr(kani, kani::proof)]
        #[cfg_attr(kani, kani::unwind(5))]
        pub fn $name() {
            let val: $t = $any;
            let h: [u8; 2] = kani::any();
            let len: usize = kani::any();
            kani::assume(len <= 2 && h[0] < 0x80 && h[1] < 0x80);
            let hs = unsafe { core::str::from_utf8_unchecked(&h[..len]) };
            let pma = cw_table::<$t>(val, MatchKind::Standard);
            check_seq!(pma.find_overlapping_iter(hs), h, len, val, $eq, |b: u8| b == 1);
            check_seq!(pma.find_iter(hs), h, len, val, $eq, |b: u8| b == 1);
            check_seq!(pma.find_overlapping_no_suffix_iter(hs), h, len, val, $eq, |b: u8| b == 1);
            let lm = cw_table::<$t>(val, MatchKind::LeftmostLongest);
            check_seq!(lm.leftmost_find_iter(hs), h, len, val, $eq, |b: u8| b == 1);
            kani::cover!(len == 2 && h[0] == 1 && h[1] == 1, "U-val: two matches");
            core::mem::forget(pma);
            core::mem::forget(lm);
        }
    };
}

macro_rules! both {
    ($bw:ident, $cw:ident, $t:ty) => {
        bw_val!($bw, $t, |a: $t, b: $t| a == b, kani::any());
        cw_val!($cw, $t, |a: $t, b: $t| a == b, kani::any());
    };
}
both!(bw_u8, cw_u8, u8);
both!(bw_u16, cw_u16, u16);
both!(bw_u32, cw_u32, u32);
both!(bw_u64, cw_u64, u64);
both!(bw_u128, cw_u128, u128);
both!(bw_i8, cw_i8, i8);
both!(bw_i16, cw_i16, i16);
both!(bw_i32, cw_i32, i32);
both!(bw_i64, cw_i64, i64);
both!(bw_i128, cw_i128, i128);
both!(bw_usize, cw_usize, usize);
both!(bw_isize, cw_isize, isize);
bw_val!(bw_empty, daachorse::Empty, |_a: daachorse::Empty, _b: daachorse::Empty| true, daachorse::Empty);
cw_val!(cw_empty, daachorse::Empty, |_a: daachorse::Empty, _b: daachorse::Empty| true, daachorse::Empty);
