#!/bin/bash
# tools/eval_seed.sh <seed-id> <prop> [<prop>...]
# Runs the given checks against a scratch worktree of /repo with seeded/<seed-id>/patch.diff applied
# (VERIF_REPO points the machinery at the worktree; /repo itself is not touched).  Output:
# /var/tmp/seedeval/<seed>.<prop>.log and one line per run in /var/tmp/seedeval/summary.txt
set -u
seed=$1; shift
OUT=/var/tmp/seedeval; mkdir -p $OUT
W=/var/tmp/sw-$seed
git -C /repo worktree remove --force $W 2>/dev/null
git -C /repo worktree add -q --detach $W HEAD || exit 2
git -C $W apply /verif/seeded/$seed/patch.diff || { echo "$seed apply-failed" >> $OUT/summary.txt; exit 2; }
for p in "$@"; do
  s=$(date +%s)
  (cd /verif && VERIF_EVIDENCE_DIR=$OUT/evidence-$seed VERIF_REPLAY_DIR=$OUT/replays VERIF_REPO=$W VERIF_SCRATCH=/var/tmp/se-$seed-$p VERIF_JOBS=${VERIF_JOBS:-7} VERIF_MEM_GB=${VERIF_MEM_GB:-26} timeout 3600 ./check $p --tier ${TIER:-quick} > $OUT/$seed.$p.log 2>&1)
  rc=$?
  v=$(grep -c "^VIOLATION" $OUT/$seed.$p.log)
  echo "$seed $p rc=$rc violations=$v $(( $(date +%s) - s ))s :: $(grep -m1 -A1 '^VIOLATION' $OUT/$seed.$p.log | tail -1 | cut -c1-160)" >> $OUT/summary.txt
done
git -C /repo worktree remove --force $W
git -C /repo worktree prune
