#!/usr/bin/env python3
"""Writes /verif/MANIFEST.json (kept in sync with vlib/plans.py and DESIGN.md by hand)."""
import json
import subprocess

HOOK = subprocess.run(["git", "-C", "/repo", "log", "--format=%H", "--grep=verif hooks", "-n", "5"],
                      stdout=subprocess.PIPE, text=True).stdout.split()

COMMON_NOTE = ("trusted: Kani 0.68 compiler + goto-instrument + CBMC 6.11 (cadical); the by-definition reference "
               "(vtool/src/reference.rs: sets of strings, no trie/queue); pattern sets are a corpus + VERIF_SEED "
               "generator, never symbolic (the builder is not encodable: probes P1,P2,P7); every harness ran with "
               "unwinding assertions; a counterexample is reported only after the same harness fails natively on the model's values")

T_ALL = ("for every automaton of the run CBMC decides, for ALL (state,label) pairs (256 bytes / every Unicode scalar value), "
         "that the real transition function is the textbook Aho-Corasick transition of the pattern set and that every state's "
         "output chain lists exactly the patterns that are suffixes of its string (T1,T2,T34); by induction this covers haystacks "
         "of every length for that automaton")
I_ALL = ("the iterator is decided to be the stated transducer over (transition function, outputs) for ALL 4-slot tables under the "
         "representation invariant (8 slots in the thorough tier), from an arbitrary iterator state; a step counterexample is reported only with a public-API witness on a built automaton")

CHECKS = {
    "C01": ("model_checking", T_ALL + "; " + I_ALL + " (I-ovl); plus bounded end-to-end runs of find_overlapping_iter on fully symbolic haystacks (L<=2 quick, L<=3 thorough) against a brute-force occurrence oracle",
            "bounded model checking (Kani->CBMC): table validation over all (state,label) + inductive iterator step over arbitrary small tables + bounded end-to-end vs brute-force oracle"),
    "C02": ("model_checking", T_ALL + "; find_iter decided over all 4-slot tables for two consecutive calls (restart from the root, absolute offsets); bounded end-to-end runs against the earliest-end/longest/restart oracle",
            "bounded model checking (Kani->CBMC): table validation + two-call iterator harness over arbitrary small tables + bounded end-to-end vs oracle"),
    "C03": ("model_checking", "per leftmost-longest automaton CBMC decides for ALL (state,label) that next_state_leftmost and the output carried by every state equal a by-definition leftmost specification on strings (T1,T2lm,T34lm,T5); the leftmost iterator is decided to be the candidate-tracking transducer over all 4-slot tables (two calls); bounded end-to-end runs (L<=2 quick, L<=4 thorough, and concrete-prefix shapes) against the leftmost-longest oracle",
            "bounded model checking (Kani->CBMC): per-state validation against a definitional leftmost automaton + iterator transducer harness + bounded end-to-end vs oracle"),
    "C04": ("model_checking", "as C03 with the leftmost-first specification (earliest registered at the leftmost start; shadow-aware node set), on every registration order of 3-pattern sets with shadowing, each order being its own automaton",
            "bounded model checking (Kani->CBMC): per-state validation against a definitional leftmost-first automaton for all registration orders of small sets + bounded end-to-end vs oracle"),
    "C05": ("model_checking", T_ALL + "; the no-suffix iterator decided over all 4-slot tables from an arbitrary state (state persists across calls); bounded end-to-end runs against the longest-per-end-position oracle",
            "bounded model checking (Kani->CBMC): table validation + inductive iterator step + bounded end-to-end vs oracle"),
    "C06": ("model_checking", "for every supported value type (13 types x 2 variants) CBMC decides that an automaton whose output carries an ARBITRARY value of that type returns exactly that value with 0<=start<end<=len from the search methods (U-val); on corpus automata built with build()/build_with_values() (repeated values, 0, MAX, 200 index values as u8) the output chain of every state carries exactly the registered value and byte length (T34); bare-pattern sets whose positions do not fit the value type (260 as u8, 130 as i8) must not build, and if a tree builds them T34 refutes every value reported for a position that has no representation",
            "bounded model checking (Kani->CBMC) of the generic iterator/value plumbing per concrete value type + output-table validation per built automaton"),
    "C07": ("model_checking", "Kani's pointer-validity and unsafe-precondition checks (get_unchecked, unwrap_unchecked, from_u32_unchecked) are decided for the kind's transition function from ALL real states x ALL labels of every automaton, together with closure of the real-state set (T5) => no haystack can reach an unchecked out-of-table read; the UTF-8 decoder for all pairs/triples of scalar values; every iterator step for all 4-slot tables under the representation invariant",
            "bounded model checking (Kani->CBMC) with memory-safety checks: closure of reachable states under all labels per built table + decoder on all scalar values + iterators over arbitrary small tables"),
    "C08": ("model_checking", "decomposed: decoder yields std's chars and exact end offsets for all scalar values (U-utf8); the char-wise table is the reference automaton of the patterns as char strings with UTF-8 byte lengths, for ALL chars incl. unmapped ones (T-cw); the byte-wise table of the same patterns is the reference automaton on bytes (T-bw); char-wise iterators report the decoder's byte offsets over all 4-slot tables; bounded end-to-end runs of every char-wise method on symbolic chars of all widths against the BYTE-level oracle",
            "bounded model checking (Kani->CBMC): both variants validated against the same occurrence semantics + decoder for all scalar values + bounded end-to-end on symbolic chars"),
    "C09": ("model_checking", "deserialize(serialize(x) ++ t) == (x, t), |serialize(x)| == serialized_bytes() and serialize(deserialize(b)) == b for ALL values of every component type (12 integer types, Empty, Option<NonZeroU32>, packed word, MatchKind, both State types, Output<V>, a user-defined fixed-width type, CodeMapper) and vectors of 0..3 elements with arbitrary content; whole images (both variants) whose vectors hold 0/1 element with arbitrary content: field order, match-kind byte, state count, remainder slice, serialize() reproducing the image",
            "bounded model checking (Kani->CBMC) of every (de)serialiser on arbitrary values; whole-image round trip bounded to 0/1-element vectors (larger images are outside CBMC's reach here, DESIGN 8.4)"),
    "C11": ("model_checking", "the same multi-block pattern sets are built by the real builder with num_free_blocks in {1,2,3,16} (thorough: {1,2,3,5,16,64}; values are enumerated, not symbolic); every build is validated against the SAME by-definition reference for all (state,label) (T1,T5 quick; T1,T2,T34,T6 thorough), so all builds answer every search identically, stay memory safe and report the same state count",
            "bounded model checking (Kani->CBMC): table validation of each num_free_blocks build against one reference"),
    "C12": ("model_checking", "for ALL 4-slot tables and all haystacks <= 2 bytes / 2 arbitrary chars: every next() of the three *_from_iter methods returns the slice entry point's match, exactly m.end() bytes have been pulled from a counting source at that moment, exactly len at the final None; the source's size_hint lower bound is an arbitrary valid value; thorough tier: for ALL 2-slot tables an OWNED [u8; 2] haystack passed by value to the three slice entry points (iterator built in a callee and returned) gives the byte-iterator entry point's matches, under Kani's pointer-validity checks (S-own)",
            "bounded model checking (Kani->CBMC) with an instrumented counting source over arbitrary small tables"),
    "C13": ("model_checking", "ranking function per automaton: for ALL real states the fail link leads to a strictly shallower real state (or the dead state in leftmost kinds) and output parent links strictly decrease (T34/T34lm); the transition loops are unrolled to maxdepth+2 with unwinding assertions for ALL (state,label) (T5) => termination; depth +1 per goto and <= -1 per fail step gives the 2n bound (argued, DESIGN section 3); iterator steps terminate for all 4-slot tables",
            "bounded model checking (Kani->CBMC): rank obligations for all states + unwinding assertions as termination certificates"),
    "C15": ("translation_validation", "per built automaton CBMC decides for ALL (state,label) that the slots reachable through the real child() are in bijection with the by-definition prefix set (shadow-aware for leftmost-first) (T1), and evaluates num_states()/num_elements()/heap_bytes() on those tables (T6), including a densely filled 1201-state automaton with zero-sized, 1-byte and 16-byte value types (the 12-bytes-per-state bound is tight there)",
            "bounded model checking (Kani->CBMC) of the real child() over all (state,label) of each built table vs a by-definition node set"),
}

NA = {
    "C10": "accept/reject logic is NfaBuilder::add (BTreeMap inside Vec<RefCell>): not encodable by Kani/CBMC within reach (probes P1,P2,P7,P7' in DESIGN.md: no verdict in 15-30 min for 1-2 symbolic labels); enumerating concrete collections natively would be a different technique",
    "C14": "order independence quantifies over permutations of BUILDER input and the builder cannot be executed symbolically (P1,P2,P7); thread interleavings are outside Kani (no concurrency model); purity alone is too small a part to claim the property",
    "C16": "daacfind main() is clap parsing + file/stdin I/O + termcolor writes: whole-program and FFI-bound, no unit boundary to harness without rewriting main.rs",
}


def main():
    checks = []
    for p, (cat, text, tech) in CHECKS.items():
        checks.append(dict(
            property_id=p,
            quick_cmd="./check %s --tier quick" % p,
            thorough_cmd="./check %s --tier thorough" % p,
            evidence_file="evidence/%s.json" % p,
            replay_cmd_template="./check %s --replay {path}" % p,
            engine="kani-cbmc",
            level_claimed=dict(category=cat, text=text, design_ref="DESIGN.md 4.%s and section 8" % p),
            level_note=COMMON_NOTE,
            technique=tech))
    m = dict(
        version=1,
        setup_cmd="true",
        hooks=dict(guard="--cfg daachorse_verif",
                   enable='RUSTFLAGS="--cfg daachorse_verif" (set by ./check for vtool, cargo kani --only-codegen and the native replay binary)',
                   baseline_off_cmd="cd /repo && cargo test --workspace --no-fail-fast --offline",
                   source_commits=HOOK, add_only=True),
        engines=[dict(name="kani-cbmc", path="/verif/check", serves_properties=list(CHECKS),
                      kind_free_text="Kani 0.68 compiler -> goto-cc/goto-instrument -> CBMC 6.11 (cadical) with per-loop unwindsets and unwinding "
                                     "assertions; counterexamples re-executed natively through the same harness code (shim) before being reported")],
        checks=checks,
        not_applicable=[dict(property_id=k, reason=v) for k, v in NA.items()],
        notes="Every check rebuilds vtool, the Kani harness crate and (on a counterexample) the native replay binary against /repo's "
              "current working tree; nothing is cached between runs. Exit 0 = held on everything explored; exit 1 + VIOLATION line = "
              "reproduced counterexample; exit 2 = inconclusive (timeout, out of memory, bound too small, build failure), never a violation. "
              "Scratch space: /var/tmp/daac-verif.<pid> (removed on exit).")
    json.dump(m, open("/verif/MANIFEST.json", "w"), indent=1)


main()
