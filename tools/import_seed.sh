#!/bin/bash
# tools/import_seed.sh <dir with patch.diff demo.rs notes.md> <seed-id> <property>
# Confirms a sub-agent's change in a scratch worktree of /repo and stores it under seeded/<seed-id>.
set -u
d=$1; id=$2; prop=$3
OUT=/var/tmp/seedval2; mkdir -p $OUT
W=/var/tmp/sv2-$id
git -C /repo worktree remove --force $W 2>/dev/null
git -C /repo worktree add -q --detach $W HEAD || exit 2
res="$id"
cp $d/demo.rs $W/tests/seed_demo.rs
(cd $W && timeout 900 cargo test --offline --test seed_demo > $OUT/$id.clean.log 2>&1); res="$res clean_demo_rc=$?"
rm $W/tests/seed_demo.rs
if git -C $W apply $d/patch.diff 2>$OUT/$id.apply.log; then res="$res apply=ok"; else res="$res apply=FAIL"; fi
(cd $W && timeout 1500 cargo test --workspace --no-fail-fast --offline > $OUT/$id.suite.log 2>&1); res="$res suite_rc=$?"
cp $d/demo.rs $W/tests/seed_demo.rs
(cd $W && timeout 900 cargo test --offline --test seed_demo > $OUT/$id.patched.log 2>&1); res="$res patched_demo_rc=$?"
(cd $W && RUSTFLAGS="--cfg daachorse_verif" cargo build --offline --lib --target-dir $W/target/vf > $OUT/$id.hooks.log 2>&1); res="$res hooks_build_rc=$?"
echo "$res" >> $OUT/summary.txt
git -C /repo worktree remove --force $W
case "$res" in
  *"clean_demo_rc=0 apply=ok suite_rc=0 patched_demo_rc=101 hooks_build_rc=0"*|*"clean_demo_rc=0 apply=ok suite_rc=0 patched_demo_rc=134 hooks_build_rc=0"*)
    mkdir -p /verif/seeded/$id
    cp $d/patch.diff $d/demo.rs $d/notes.md /verif/seeded/$id/ 2>/dev/null
    files=$(grep -E '^\+\+\+ b/' $d/patch.diff | sed 's#+++ b/##' | sort -u | tr '\n' ' ')
    python3 - "$id" "$prop" "$res" "$files" <<'PY'
import json, sys
sid, prop, res, files = sys.argv[1:5]
meta = dict(id=sid, breaks_property=prop, files_changed=files.split(),
            needs_to_manifest="see notes.md (written by the sub-agent that produced the change)",
            origin="round 3: fresh sub-agent given only the property text, a focus area and a scratch worktree of /repo",
            confirmed_by_me=dict(how="tools/import_seed.sh: scratch worktree; git apply; cargo test --workspace --no-fail-fast --offline; demo as tests/seed_demo.rs with and without the patch; hooks-on build",
                                 result=res), detected_by=None)
json.dump(meta, open("/verif/seeded/%s/meta.json" % sid, "w"), indent=1)
PY
    echo "IMPORTED $id";;
  *) echo "REJECTED $res";;
esac
