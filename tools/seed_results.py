#!/usr/bin/env python3
"""Collects /var/tmp/seedeval/summary.txt (written by tools/eval_seed.sh) into seeded/RESULTS.md and
updates seeded/<id>/meta.json `detected_by`."""
import json
import os
import re
import sys

SUM = sys.argv[1] if len(sys.argv) > 1 else "/var/tmp/seedeval/summary.txt"
rows = {}
for line in open(SUM):
    m = re.match(r"(C\d+[a-z]) (C\d+) rc=(\d+) violations=(\d+) (\d+)s :: ?(.*)", line.strip())
    if not m:
        continue
    seed, prop, rc, nv, secs, first = m.groups()
    rows.setdefault(seed, {})[prop] = dict(rc=int(rc), violations=int(nv), secs=int(secs), first=first.strip())

out = ["# Seeded changes: which check catches which",
       "",
       "Produced by `tools/eval_seed.sh <seed> <property>` (quick tier unless noted): the patch is applied in a scratch",
       "worktree of /repo and the check is pointed at it with `VERIF_REPO`.  `rc=1` = VIOLATION reported (after native",
       "replay), `rc=0` = not detected by that check, `rc=2` = inconclusive.",
       "",
       "| seed | what it breaks (see notes.md) | check | result | first reported harness / failed obligation |",
       "|---|---|---|---|---|"]
for seed in sorted(os.listdir("/verif/seeded")):
    d = "/verif/seeded/" + seed
    if not os.path.isdir(d):
        continue
    meta = json.load(open(d + "/meta.json"))
    files = ", ".join(meta.get("files_changed", []))
    det = []
    for prop, r in sorted(rows.get(seed, {}).items()):
        res = {1: "**VIOLATION**", 0: "not detected", 2: "inconclusive"}.get(r["rc"], "rc=%d" % r["rc"])
        out.append("| %s | %s | %s quick | %s (%ds) | %s |" % (seed, files, prop, res, r["secs"], r["first"].replace("|", "/")[:150]))
        if r["rc"] == 1:
            det.append(prop)
    if seed not in rows:
        out.append("| %s | %s | - | not evaluated | |" % (seed, files))
    meta["detected_by"] = det
    meta["evaluation"] = rows.get(seed, {})
    json.dump(meta, open(d + "/meta.json", "w"), indent=1)
open("/verif/seeded/RESULTS.md", "w").write("\n".join(out) + "\n\nNarrative (what was missed at first and what was changed): seeded/NOTES.md\n")
print("\n".join(out[-30:]))
