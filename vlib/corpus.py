"""The non-symbolic dimension: pattern sets (DESIGN.md 2.3).

Fixed sets are chosen for the layouts the property texts name; seeded sets come from a
VERIF_SEED-driven generator.  Every set is a VALID collection (non-empty, no empty pattern, no
duplicates)."""
import random


class Entry:
    def __init__(self, name, variant, kind, pats, nfb=16, vtype="u32", values=None, note=""):
        self.name = name
        self.variant = variant      # bytewise | charwise
        self.kind = kind            # standard | longest | first
        self.pats = [p.encode() if isinstance(p, str) else bytes(p) for p in pats]
        assert len(set(self.pats)) == len(self.pats) and all(self.pats), name
        self.nfb = nfb
        self.vtype = vtype
        self.values = values
        self.note = note
        self.emits = []

    def clone(self, name, **kw):
        e = Entry(name, kw.get("variant", self.variant), kw.get("kind", self.kind), self.pats,
                  kw.get("nfb", self.nfb), kw.get("vtype", self.vtype), kw.get("values", self.values),
                  kw.get("note", self.note))
        return e

    def emit(self, *fams):
        self.emits.extend(fams)
        return self

    def plan(self):
        lines = ["entry " + self.name, "variant " + self.variant, "kind " + self.kind,
                 "nfb %d" % self.nfb, "vtype " + self.vtype,
                 "values " + ("index" if self.values is None else ",".join(str(v) for v in self.values))]
        lines += ["pat " + p.hex() for p in self.pats]
        lines.append("emit " + " ".join(self.emits))
        lines.append("end")
        return "\n".join(lines) + "\n"


def B(*xs):
    return bytes(xs)


# ----------------------------------------------------------------------------------------------
# byte-wise fixed sets
# ----------------------------------------------------------------------------------------------

def bw_fixed():
    s = {}
    s["unit"] = ["abba", "baaba", "ababa", "ba", "a"]
    s["chain"] = ["a", "ba", "cba", "dcba", "dcb"]
    s["hard_lm"] = ["ab", "a", "abcd", "bc", "cd"]
    s["hard_lm2"] = ["abcd", "bc", "a", "cx"]
    s["find_reset"] = ["ab", "bc", "abcd", "d"]
    # the values vacant CHECK fields default to, as first and inner labels
    s["bin"] = [B(0), B(1), B(0xFF), B(0, 1), B(1, 0, 0xFF), B(0xFF, 0), B(0x61, 0), B(0x61, 0xFF, 1),
                B(0x10, 0xFC), B(0x7F, 0x80, 0), B(0xFE)]
    # test_n_blocks_* shapes of the repository's own unit tests
    s["blk_1_1"] = [B(i) for i in range(0x00, 0xFE)]
    s["blk_1_2"] = [B(0), B(2)] + [B(i) for i in range(4, 0x100)]
    s["blk_2_1"] = [B(i) for i in range(0x80)] + [B(0, i) for i in range(0x7E)]
    s["blk_2_2"] = [B(i) for i in range(0x80)] + [B(0, 0), B(0, 2)] + [B(0, i) for i in range(4, 0x80)]
    # 255-way fan-out below a non-root state, NUL included
    s["fan"] = [B(0x61, i) for i in range(0x100)] + [B(0), B(0x62, 0)]
    # >= 3 blocks: evicts with num_free_blocks 1 and 2; low labels after the extension
    s["evict3"] = ([B(i) for i in range(0xFE)] + [B(0x61, 0x62, c) for c in range(0x100)]
                   + [B(0x7F, 0), B(0x7F, 0x80), B(0x7E, 1), B(0x7E, 0x81), B(0, 0), B(0xFF, 0, 1)])
    # block-boundary spills: block 0 exactly full, then ONE more edge labelled NUL (the new block holds a
    # single state in its first slot); and a NUL chain (states whose single label is 0x00)
    s["spill_nul"] = [B(i) for i in range(0x00, 0xFE)] + [B(0x05, 0x00)]
    s["nul_chain"] = [bytes(9), bytes(4) + b"\x01"]
    # states whose 255 children (0x01..=0xFF, no NUL child) fill a fresh block except its head slot:
    # the head slot stays vacant and only the sanitising pass keeps byte 0x00 from following it
    s["fanx"] = ([B(0)] + [B(h, c) for h in (0x68, 0x69, 0x6A, 0x6B) for c in range(1, 0x100)]
                 + [B(0x68, 0x01, 0x00), B(0x6C, 0x00, 0x6C)])
    return s


def gen_bw(rng, idx):
    """Seeded byte-wise set: 1..12 patterns, length 1..4, over a 2..6-symbol alphabet that always
    contains one of 0x00/0x01/0xFF."""
    k = rng.randint(2, 6)
    alpha = [rng.choice([0x00, 0x01, 0xFF])]
    while len(alpha) < k:
        c = rng.choice([rng.randrange(256), rng.choice(b"abcxyz"), rng.choice([0, 1, 2, 0x7F, 0x80, 0xFE, 0xFF])])
        if c not in alpha:
            alpha.append(c)
    n = rng.randint(1, 12)
    pats = set()
    tries = 0
    while len(pats) < n and tries < 200:
        tries += 1
        ln = rng.randint(1, 4)
        pats.add(bytes(rng.choice(alpha) for _ in range(ln)))
    pats = sorted(pats)
    rng.shuffle(pats)
    return pats


def gen_bw_tangle(rng, idx):
    """Seeded sets with dense prefix/suffix/infix relations: 3-6 patterns of length 1-5 over {a,b,c}
    plus an occasional x.  This is where fail links, dead links below pattern ends and inherited
    outputs interact; each set is cheap to validate (T2/T34 5-10 s)."""
    n = rng.randint(3, 6)
    pats = set()
    while len(pats) < n:
        pats.add("".join(rng.choice("abcabcx") for _ in range(rng.randint(1, 5))))
    pats = sorted(pats)
    rng.shuffle(pats)
    return [p.encode() for p in pats]


def gen_bw_infix(rng, idx):
    """Seeded sets built around the shape C03's text names -- a pattern that ends inside another
    pattern's (failed) continuation: a long pattern L, a short pattern S that is an infix of L (not a
    prefix), a pattern that follows L one symbol past S and then diverges, plus 0-2 random extras."""
    sym = "abcdxyz"
    ln = rng.randint(5, 7)
    L = "".join(rng.choice(sym) for _ in range(ln))
    i = rng.randint(1, ln - 4)           # S starts inside L ...
    j = rng.randint(i + 1, ln - 3)       # ... and L goes on for at least two more symbols after T leaves it
    S = L[i:j]
    T = L[i:j + 1] + rng.choice(sym)
    pats = {L, S, T}
    for _ in range(rng.randint(0, 2)):
        pats.add("".join(rng.choice(sym) for _ in range(rng.randint(1, 3))))
    if rng.random() < 0.5:
        pats.add(L[j - 1:j + 1] if j - 1 >= 0 else L[:1])
    pats = sorted(pats)
    rng.shuffle(pats)
    return [p.encode() for p in pats]


def gen_bw_edge(rng, idx):
    """Tiny seeded sets over bytes at the edges of a 256-slot block (0x00.., ..0xFF): 2-4 patterns of
    length 1-2.  Cheap to validate (T1 ~5 s) and they move BASE values onto the slots whose CHECK
    fields only the sanitising pass protects."""
    edge = [0x00, 0x01, 0x02, 0x03, 0xFC, 0xFD, 0xFE, 0xFF]
    n = rng.randint(2, 4)
    pats = set()
    tries = 0
    while len(pats) < n and tries < 100:
        tries += 1
        ln = rng.randint(1, 2)
        pats.add(bytes(rng.choice(edge) if rng.random() < 0.8 else rng.randrange(256) for _ in range(ln)))
    pats.add(bytes([0x00]))  # a pattern that is only ever reached through fail links / the root
    pats = sorted(pats)
    rng.shuffle(pats)
    return pats


def gen_bw_deep(rng, npat=500):
    """Seeded set with HUNDREDS of internal states (3-byte patterns over a 16-symbol alphabet that
    contains 0x00 and 0xFF): many BASE values per block, so the per-block bookkeeping of used bases
    and the sanitising pass are exercised on every block, across many evictions when
    num_free_blocks is small."""
    alpha = [0x00, 0xFF, 0x01] + rng.sample(range(2, 255), 13)
    pats = set()
    while len(pats) < npat:
        pats.add(bytes(rng.choice(alpha) for _ in range(3)))
    for a in alpha[:6]:
        pats.add(bytes([a]))
    pats = sorted(pats)
    rng.shuffle(pats)
    return pats


def gen_bw_dense(rng, npat=1200):
    """Seeded set with THOUSANDS of states, most of them internal: patterns of length 1..6 over an
    8-symbol alphabet with 0x00, 0x01 and 0xFF.  With num_free_blocks = 1..3 every ring-buffer slot of
    the builder's free list is recycled dozens of times."""
    alpha = [0x00, 0x01, 0xFF] + rng.sample(range(0x61, 0x7B), 5)
    pats = set(bytes([a]) for a in alpha)
    while len(pats) < npat:
        pats.add(bytes(rng.choice(alpha) for _ in range(rng.randint(2, 6))))
    pats = sorted(pats)
    rng.shuffle(pats)
    return pats


def gen_bw_big(rng, nblocks_min=3):
    """Seeded multi-block set: wide fan-outs over random bytes so that several 256-slot blocks
    are needed, with NUL/0x01/0xFF among the labels."""
    pats = set()
    heads = [bytes([rng.randrange(256)]) for _ in range(3)] + [b"\x00", b"\xff\x01"]
    for h in heads:
        width = rng.randint(150, 256)
        for c in rng.sample(range(256), width):
            pats.add(h + bytes([c]))
    for _ in range(40):
        ln = rng.randint(1, 4)
        pats.add(bytes(rng.choice([0, 1, 0xFF, 0x61, 0x62, rng.randrange(256)]) for _ in range(ln)))
    pats = sorted(pats)
    rng.shuffle(pats)
    return pats


# ----------------------------------------------------------------------------------------------
# char-wise fixed sets.  Mapper-table size (max code point + 1) drives cost: "small" sets stay
# below U+0E80, "cjk" ~30 k entries, "astral" > 64 k entries (thorough tier only).
# ----------------------------------------------------------------------------------------------

def cw_fixed():
    s = {}
    s["a1"] = ["a", "aa", "aaa"]                                   # alphabet 1 -> block len 2
    s["a2"] = ["ab", "ba", "b"]                                    # alphabet 2 (power of two)
    s["a3"] = ["ab", "bc", "abc", "c"]                             # alphabet 3
    s["a4"] = ["ab", "cd", "abcd", "da"]                           # alphabet 4 (power of two)
    s["a5"] = ["abcde", "bcd", "e", "ea"]                          # alphabet 5 -> block len 8
    s["w123"] = ["aé", "éก", "กa", "aéก", "ก"]                      # 1-, 2-, 3-byte chars
    s["greek"] = ["αβγ", "βγ", "γ", "αβ", "xα"]
    s["thai"] = ["ภาษา", "ษา", "า", "ภา"]
    s["cjk"] = ["全世界", "世界", "に", "aに", "世界中に", "世"]
    s["astral"] = ["😀", "a😀", "😀😁", "𝄞a", "é😁"]
    s["tokyo"] = ["東京", "京都", "東京都", "都"]
    # characters at the UTF-8 width boundaries: U+007F/U+0080, U+07FF/U+0800, U+FFFF/U+10000
    s["bound"] = ["\x7f\x80", "\x80\u07ff", "\u07ff\u0800", "\u0800\uffff", "\uffff\U00010000", "a\U00010000b"]
    # control-character alphabets: a 3-4 entry mapper table (tiny serialised images for family A)
    s["ctl2"] = ["\x01\x02", "\x02\x01", "\x02"]
    s["ctl3"] = ["\x01\x02", "\x02\x03", "\x01\x02\x03", "\x03"]
    return s


def gen_cw(rng, idx):
    pool = list("abc") + ["é", "ß", "α", "Ж", "ก", "ข"]
    k = rng.randint(2, 5)
    alpha = rng.sample(pool, k)
    n = rng.randint(1, 8)
    pats = set()
    tries = 0
    while len(pats) < n and tries < 200:
        tries += 1
        pats.add("".join(rng.choice(alpha) for _ in range(rng.randint(1, 4))))
    pats = sorted(pats)
    rng.shuffle(pats)
    return pats
