"""Development aid: python3 -m vlib.dev <hand harness names...>  (runs them with registry params)."""
import os, sys, time
from . import hand, kani

def main():
    names = sys.argv[1:]
    scratch = os.environ.get("VERIF_SCRATCH", "/var/tmp/dvdev")
    os.makedirs(scratch, exist_ok=True)
    mods = hand.modules_for(names)
    ws = kani.Workspace(scratch, "", mods)
    print("codegen %.0fs" % ws.codegen(), flush=True)
    jobs = [hand.job(n, os.environ.get("VERIF_TIER", "quick")) for n in names]
    def prog(r):
        print("[%6.1fs] %-40s %-8s symex=%.1f solver=%.1f props=%d %s %s" % (r.time_s, r.name, r.status, r.symex_s, r.solver_s, r.n_props, r.failed[:2], r.detail[:200]), flush=True)
    kani.run_jobs(ws, jobs, os.path.join(scratch, "work"), progress=prog)

main()
