"""Registry of the hand-written harnesses (harness-tmpl/src/*.rs): bounds, budgets, what they encode."""

TIMEOUT = {"quick": {"T": 900, "E": 1800}, "thorough": {"T": 3600, "E": 7200}}

ALL_CHARS = 0x110000 - 0x800

# name -> dict(unwind, [unwindset], family, mem_gb, timeout_s(q,t), cost, states, transitions, functions, assumptions)
REG = {}


def reg(name, **kw):
    REG[name] = kw


reg("selftest::twin_ok", unwind=3, family="selftest", functions=["intpack::U24nU8::{a,b}"])
reg("selftest::twin_fail", unwind=3, family="selftest", functions=["intpack::U24nU8::{a,b}"])


# ---- U-utf8 / U-map -------------------------------------------------------------------------
SC = ALL_CHARS
reg("u_utf8::two_chars", unwind=6, family="U", states=1, transitions=SC * SC,
    bounds="all pairs of Unicode scalar values (1-4 byte encodings)", timeout_s=(600, 1200),
    functions=["charwise::iter::CharWithEndOffsetIterator::next"])
reg("u_utf8::three_chars_offsets", unwind=6, family="U", states=1, transitions=SC ** 3,
    bounds="all triples of Unicode scalar values", timeout_s=(900, 1800),
    functions=["charwise::iter::CharWithEndOffsetIterator::next"])
reg("u_map::new_bijective", unwind=7, family="U", states=1, transitions=2 ** 32,
    bounds="frequency tables of <= 3 entries with arbitrary u32 frequencies; any char for the out-of-table probe",
    timeout_s=(900, 1800), functions=["charwise::mapper::CodeMapper::{new,get,alphabet_size}"])

# ---- U-ser ----------------------------------------------------------------------------------
# default unwind small (Vec plumbing, element loops <= 3); the byte-compare helper `same` and the
# A-ser image comparison loop get their own bounds through --unwindset.
_SERF = ["serializer::Serializable for primitives / Option<NonZeroU32> / Empty", "serializer::SerializableVec for Vec<S>",
         "intpack::U24nU8::{serialize_to_vec,deserialize_from_slice,a,b,set_a,set_b}", "MatchKind::{serialize_to_vec,deserialize_from_slice,From<u8>}",
         "bytewise::State::{serialize_to_vec,deserialize_from_slice,set_*}", "charwise::State::{serialize_to_vec,deserialize_from_slice}",
         "Output<V>::{serialize_to_vec,deserialize_from_slice}", "CodeMapper::{serialize_to_vec,deserialize_from_slice}"]
_SAME = [("u_ser::same", 30), ("memcmp", 34)]
for _t in ("u8", "u16", "u32", "u64", "u128", "i8", "i16", "i32", "i64", "i128", "usize", "isize"):
    reg("u_ser::prim_%s" % _t, unwind=6, unwindset=_SAME, family="U", transitions=2 ** 16,
        bounds="all values of %s, 2 arbitrary trailing bytes" % _t, functions=_SERF[:1])
    reg("u_ser::bw_output_%s" % _t, unwind=6, unwindset=_SAME, family="U", transitions=2 ** 32,
        bounds="all (value,length,parent), 2 trailing bytes", functions=[_SERF[6]])
for _n in ("empty", "opt_nz", "packed", "match_kind", "match_kind_bytes", "bw_state", "cw_state", "vec_u32", "vec_bw_state",
           "vec_cw_state", "mapper", "user_type_output", "bw_output_empty", "vec_bw_output_empty"):
    reg("u_ser::" + _n, unwind=6, unwindset=_SAME, family="U", transitions=2 ** 32,
        bounds="all field values; vectors of symbolic length 0..3 (mapper table 0..2); 2 trailing bytes", functions=_SERF)
for _m, _ts in (("bw", ("u8", "u16", "u32", "u64", "u128", "i128")), ("cw", ("u8", "u32", "u128"))):
    for _t in _ts:
        reg("u_ser::vec_%s_output_%s" % (_m, _t), unwind=6, unwindset=_SAME, family="U", transitions=2 ** 32, timeout_s=(900, 1800),
            bounds="Vec<Output<%s>> of symbolic length 0..3, all field values, 2 trailing bytes" % _t, functions=_SERF[1:2] + _SERF[6:7])
for _n in ("bw_image_0", "bw_image_1", "cw_image_0", "cw_image_1"):
    reg("a_img::" + _n, unwind=6, unwindset=[("memcmp", 24)], family="A", timeout_s=(900, 1800), mem_gb=16, transitions=2 ** 32,
        bounds="whole images whose vectors hold %s element(s); all field values, match kinds 0..2, 2 symbolic trailing bytes" % _n[-1],
        functions=["DoubleArrayAhoCorasick::{serialize,deserialize_unchecked}" if _n.startswith("bw") else "CharwiseDoubleArrayAhoCorasick::{serialize,deserialize_unchecked}",
                   "CodeMapper::{serialize_to_vec,deserialize_from_slice}"])

# ---- I family (inductive iterator steps over arbitrary small tables) -------------------------
_IF_BW = ["bytewise::iter::{FindIterator,FindOverlappingIterator,FindOverlappingNoSuffixIterator,LestmostFindIterator}::next",
          "bytewise::{next_state_id_unchecked,next_state_id_leftmost_unchecked,child_index_unchecked}", "Match::{start,end,value}", "U8SliceIterator::next"]
_IF_CW = ["charwise::iter::{FindIterator,FindOverlappingIterator,FindOverlappingNoSuffixIterator,LestmostFindIterator}::next",
          "charwise::{next_state_id_unchecked,next_state_id_leftmost_unchecked,child_index_unchecked}", "CodeMapper::get",
          "CharWithEndOffsetIterator::next", "StrIterator::next", "Match::{start,end,value}"]
for _v, _f in (("i_bw", _IF_BW), ("i_cw", _IF_CW)):
    for _h, _txt in (("step_overlapping", "one next() from an arbitrary iterator state, <= 2 remaining labels"),
                     ("step_no_suffix", "one next() from an arbitrary automaton state, <= 2 remaining labels"),
                     ("find_two_calls", "public constructor, two next() calls, haystack <= 3 labels"),
                     ("leftmost_two_calls", "public constructor, two next() calls, haystack <= 3 labels")):
        reg("%s::%s" % (_v, _h), unwind=6, family="I", states=4, transitions=4 * 4, mem_gb=10, timeout_s=(1200, 3600),
            bounds="all 4-slot tables under Inv (2 output records); " + _txt, functions=_f, cost=3 * 10 ** 6)
        reg("%s::%s_n8" % (_v, _h), unwind=10, family="I", states=8, transitions=8 * 8, mem_gb=16, timeout_s=(3600, 7200),
            bounds="all 8-slot tables under Inv (3 output records); " + _txt, functions=_f, cost=9 * 10 ** 6)

# ---- S-lazy / U-val ---------------------------------------------------------------------------
for _n in ("bw_find", "bw_overlapping", "bw_overlapping_full", "bw_no_suffix", "cw_find", "cw_overlapping", "cw_overlapping_full", "cw_no_suffix"):
    reg("s_lazy::" + _n, unwind=6, family="S", states=4, transitions=16, mem_gb=(24 if _n.endswith("_full") else 12), timeout_s=(1500, 3600), cost=4 * 10 ** 6,
        bounds="all 4-slot tables under Inv (2 output records; the non-_full overlapping variants: 1 record, i.e. no output chains); "
               "haystack <= 2 bytes (char-wise: <= 2 arbitrary chars); every next() call up to the final None; "
               "source with arbitrary valid size_hint lower bound",
        functions=(_IF_BW if _n.startswith("bw") else _IF_CW) + ["find_iter_from_iter", "find_overlapping_iter_from_iter", "find_overlapping_no_suffix_iter_from_iter"])
for _n in ("bw_owned_find", "bw_owned_overlapping", "bw_owned_no_suffix"):
    reg("s_lazy::" + _n, unwind=6, family="S", states=2, transitions=4, mem_gb=8, timeout_s=(900, 1800), cost=1 * 10 ** 6,
        bounds="all 2-slot tables under Inv (1 output record); an owned [u8; 2] haystack passed BY VALUE to the slice entry point "
               "from a callee that returns the iterator; every next() call up to the final None, against the byte-iterator entry point",
        functions=_IF_BW + ["find_iter", "find_overlapping_iter", "find_overlapping_no_suffix_iter", "U8SliceIterator::new"])
U_VAL_NAMES = ['bw_u8', 'bw_u16', 'bw_u32', 'bw_u64', 'bw_u128', 'bw_i8', 'bw_i16', 'bw_i32', 'bw_i64', 'bw_i128', 'bw_usize', 'bw_isize', 'bw_empty', 'bw_u8_find', 'bw_u8_nosuf', 'bw_u8_lm', 'bw_u8_lf', 'bw_u128_find', 'bw_u128_nosuf', 'bw_u128_lm', 'bw_u128_lf', 'bw_empty_find', 'bw_empty_nosuf', 'bw_empty_lm', 'bw_empty_lf', 'cw_u8', 'cw_u16', 'cw_u32', 'cw_u64', 'cw_u128', 'cw_i8', 'cw_i16', 'cw_i32', 'cw_i64', 'cw_i128', 'cw_usize', 'cw_isize', 'cw_empty', 'cw_u8_find', 'cw_u8_nosuf', 'cw_u8_lm', 'cw_u8_lf', 'cw_u128_find', 'cw_u128_nosuf', 'cw_u128_lm', 'cw_u128_lf', 'cw_empty_find', 'cw_empty_nosuf', 'cw_empty_lm', 'cw_empty_lf']
for _n in U_VAL_NAMES:
    reg("u_val::" + _n, unwind=5, family="U", states=2, transitions=2 ** 16, timeout_s=(900, 1800),
        bounds="all values of the type; all haystacks <= 2 labels; one search method of one variant per harness",
        functions=(_IF_BW if _n.startswith("bw") else _IF_CW))

DEPS = {"s_lazy": ["i_bw", "i_cw"]}


def modules_for(names):
    mods = set()
    for n in names:
        m = module_of(n)
        mods.add(m)
        mods.update(DEPS.get(m, []))
    return sorted(mods)


def module_of(h):
    return h.split("::")[0]


def family_of(h):
    return REG[h].get("family", "U")


def job(h, tier):
    if h not in REG:
        print("ERROR hand-written harness %s is not registered" % h)
        raise SystemExit(2)
    r = REG[h]
    t = r.get("timeout_s", (600, 3600))
    return dict(harness=h, unwind=r.get("unwind"), unwindset=r.get("unwindset"),
                timeout_s=t[0] if tier == "quick" else t[1], mem_gb=r.get("mem_gb", 8),
                cost=r.get("cost", 5 * 10 ** 5), bounds=bounds_of(h, tier), inputs=r.get("inputs"))


def bounds_of(h, tier):
    r = REG.get(h, {})
    return dict(states=r.get("states", 1), transitions=r.get("transitions", 1), text=r.get("bounds", ""))


def functions_of(names):
    out = []
    for n in names:
        out += REG.get(n, {}).get("functions", [])
    return out


def assumptions_for(prop, meta):
    a = ["pattern sets are concrete (fixed corpus + VERIF_SEED generator): the builder is executed natively, "
         "its OUTPUT tables are what the solver validates",
         "Kani models the dev profile (debug assertions and std's unsafe-precondition checks on)",
         "CBMC loop bounds come from the data (max depth, haystack length) with unwinding assertions on",
         "no stubs"]
    fams = {m.get("family", "?") for m in meta.values()}
    if any(f.startswith("E") for f in fams):
        a.append("E harnesses: haystack length <= L (bytes; chars for char-wise) as listed per harness")
    if any(f.startswith("I") or f.startswith("S") for f in fams):
        a.append("I/S harnesses: tables of N slots satisfying the representation invariant Inv "
                 "(base < N, fail[i] < i, output_pos <= NO, parent[j] <= j, length >= 1), labels < N")
    for m in meta.values():
        for x in REG.get(m.get("h", {}).get("harness", ""), {}).get("assumptions", []):
            if x not in a:
                a.append(x)
    return a
