"""Registry of the hand-written harnesses (harness-tmpl/src/*.rs): bounds, budgets, what they encode."""

TIMEOUT = {"quick": {"T": 900, "E": 1800}, "thorough": {"T": 3600, "E": 7200}}

ALL_CHARS = 0x110000 - 0x800

# name -> dict(unwind, [unwindset], family, mem_gb, timeout_s(q,t), cost, states, transitions, functions, assumptions)
REG = {}


def reg(name, **kw):
    REG[name] = kw


reg("selftest::twin_ok", unwind=3, family="selftest", functions=["intpack::U24nU8::{a,b}"])
reg("selftest::twin_fail", unwind=3, family="selftest", functions=["intpack::U24nU8::{a,b}"])


def module_of(h):
    return h.split("::")[0]


def family_of(h):
    return REG[h].get("family", "U")


def job(h, tier):
    if h not in REG:
        raise SystemExit("ERROR hand-written harness %s is not registered" % h)
    r = REG[h]
    t = r.get("timeout_s", (600, 3600))
    return dict(harness=h, unwind=r.get("unwind"), unwindset=r.get("unwindset"),
                timeout_s=t[0] if tier == "quick" else t[1], mem_gb=r.get("mem_gb", 8),
                cost=r.get("cost", 5 * 10 ** 5), bounds=bounds_of(h, tier), inputs=r.get("inputs"))


def bounds_of(h, tier):
    r = REG.get(h, {})
    return dict(states=r.get("states", 1), transitions=r.get("transitions", 1), text=r.get("bounds", ""))


def functions_of(names):
    out = []
    for n in names:
        out += REG.get(n, {}).get("functions", [])
    return out


def assumptions_for(prop, meta):
    a = ["pattern sets are concrete (fixed corpus + VERIF_SEED generator): the builder is executed natively, "
         "its OUTPUT tables are what the solver validates",
         "Kani models the dev profile (debug assertions and std's unsafe-precondition checks on)",
         "CBMC loop bounds come from the data (max depth, haystack length) with unwinding assertions on",
         "no stubs"]
    fams = {m.get("family", "?") for m in meta.values()}
    if any(f.startswith("E") for f in fams):
        a.append("E harnesses: haystack length <= L (bytes; chars for char-wise) as listed per harness")
    if any(f.startswith("I") or f.startswith("S") for f in fams):
        a.append("I/S harnesses: tables of N slots satisfying the representation invariant Inv "
                 "(base < N, fail[i] < i, output_pos <= NO, parent[j] <= j, length >= 1), labels < N")
    for m in meta.values():
        for x in REG.get(m.get("h", {}).get("harness", ""), {}).get("assumptions", []):
            if x not in a:
                a.append(x)
    return a
