"""Kani/CBMC driver: build the harness crate against the current /repo tree, lower every
selected harness to a goto binary with Kani's own compiler, and decide it with CBMC under
per-loop unwinding bounds, a time cap and a memory cap.

Kani 0.68 does   kani-compiler -> goto-cc(kani_lib.c) -> goto-cc --function -> goto-instrument x3 -> cbmc.
`cargo kani --only-codegen` performs the first two steps for all harnesses of the crate in one
compilation; the remaining (cheap, per harness) steps are replayed here verbatim so that CBMC can be
run with `--unwindset` (Kani's single global bound made E harnesses 7x more expensive, DESIGN 2.2)
and with our own scheduling.  A per-run self-test (twin harnesses, vlib/main.py) guards this pipeline.
"""
import glob
import json
import os
import re
import resource
import shutil
import subprocess
import threading
import time
from concurrent.futures import ThreadPoolExecutor

VERIF = os.path.dirname(os.path.dirname(os.path.abspath(__file__)))
REPO = os.environ.get("VERIF_REPO", "/repo")
KANI_LIB_C = os.path.expanduser("~/.kani/kani-0.68.0/library/kani/kani_lib.c")

CBMC_BASE = [
    "cbmc", "--no-malloc-may-fail", "--no-undefined-shift-check", "--no-signed-overflow-check",
    "--nan-check", "--no-self-loops-to-assumptions", "--no-pointer-primitive-check",
    "--object-bits", "16", "--unwinding-assertions", "--slice-formula",
]


class SetupError(Exception):
    pass


def _env(extra_rustflags=""):
    env = dict(os.environ)
    env["CARGO_NET_OFFLINE"] = "true"
    env["RUSTFLAGS"] = ("--cfg daachorse_verif " + extra_rustflags).strip()
    env.pop("RUSTUP_TOOLCHAIN", None)
    return env


def _rewrite_dep(path):
    s = open(path).read()
    s = s.replace('daachorse = { path = "/repo" }', 'daachorse = { path = "%s" }' % REPO)
    open(path, "w").write(s)


def run(cmd, cwd=None, env=None, timeout=None, log=None):
    p = subprocess.run(cmd, cwd=cwd, env=env, timeout=timeout, stdout=subprocess.PIPE,
                       stderr=subprocess.STDOUT, text=True, errors="replace")
    if log:
        with open(log, "a") as f:
            f.write("$ %s\n%s\n" % (" ".join(cmd), p.stdout))
    return p.returncode, p.stdout


def build_vtool(scratch):
    """Native helper, rebuilt against the current tree (cargo decides what is stale)."""
    src = os.path.join(scratch, "vtool")
    if os.path.exists(src):
        shutil.rmtree(src)
    shutil.copytree(os.path.join(VERIF, "vtool"), src, ignore=shutil.ignore_patterns("target"))
    _rewrite_dep(os.path.join(src, "Cargo.toml"))
    lock = os.path.join(REPO, "Cargo.lock")
    tdir = os.environ.get("VERIF_VTOOL_TARGET", os.path.join(scratch, "vtool-target"))
    rc, out = run(["cargo", "build", "--release", "--offline", "--target-dir", tdir], cwd=src,
                  env=_env(), log=os.path.join(scratch, "build.log"))
    if rc != 0:
        raise SetupError("hooks do not build (vtool against %s):\n%s" % (REPO, out[-3000:]))
    return os.path.join(tdir, "release", "vtool")


class Workspace:
    """A scratch copy of harness-tmpl + generated modules, compiled once by Kani."""

    def __init__(self, scratch, plan_text, hand_modules=()):
        self.scratch = scratch
        self.dir = os.path.join(scratch, "h")
        self.log = os.path.join(scratch, "build.log")
        self.vtool = build_vtool(scratch)
        if os.path.exists(self.dir):
            shutil.rmtree(self.dir)
        shutil.copytree(os.path.join(VERIF, "harness-tmpl"), self.dir,
                        ignore=shutil.ignore_patterns("target", "gen"))
        _rewrite_dep(os.path.join(self.dir, "Cargo.toml"))
        if os.path.exists(os.path.join(REPO, "Cargo.lock")):
            shutil.copy(os.path.join(REPO, "Cargo.lock"), self.dir)
        os.makedirs(os.path.join(self.dir, ".cargo"), exist_ok=True)
        open(os.path.join(self.dir, ".cargo", "config.toml"), "w").write("[net]\noffline = true\n")
        gendir = os.path.join(self.dir, "src", "gen")
        os.makedirs(gendir, exist_ok=True)
        plan = os.path.join(scratch, "plan.txt")
        open(plan, "w").write(plan_text)
        rc, out = run([self.vtool, "gen", plan, gendir], log=self.log)
        self.gen_stdout = out
        if rc != 0:
            raise SetupError("vtool gen failed:\n" + out[-3000:])
        self.gen = json.load(open(os.path.join(gendir, "gen.json")))
        # only the hand-written modules this run needs are compiled
        lib = open(os.path.join(self.dir, "src", "lib.rs")).read()
        for m in hand_modules:
            lib += "pub mod %s;\n" % m
        lib += ("\npub fn lookup(name: &str) -> Option<fn()> {\n"
                "    let (m, f) = name.split_once(\"::\")?;\n    match m {\n"
                "        \"gen\" => gen::lookup(f),\n")
        for m in hand_modules:
            lib += "        \"%s\" => %s::lookup(f),\n" % (m, m)
        lib += "        _ => None,\n    }\n}\n"
        open(os.path.join(self.dir, "src", "lib.rs"), "w").write(lib)
        self.harness_meta = {}

    def codegen(self):
        t0 = time.time()
        rc, out = run(["cargo", "kani", "--only-codegen"], cwd=self.dir, env=_env(), log=self.log,
                      timeout=1800)
        if rc != 0:
            errs = re.findall(r"^error.*(?:\n.*){0,12}", out, re.M)
            raise SetupError("cargo kani --only-codegen failed:\n" + ("\n".join(errs)[:3000] or out[-2000:]))
        metas = glob.glob(os.path.join(self.dir, "target", "kani", "*", "debug", "build", "vharness",
                                       "*", "out", "*.kani-metadata.json"))
        if not metas:
            raise SetupError("no kani metadata produced")
        for mf in metas:
            for h in json.load(open(mf))["proof_harnesses"]:
                self.harness_meta[h["pretty_name"]] = h
        self.codegen_s = time.time() - t0
        return self.codegen_s


def _limits(mem_gb):
    def f():
        lim = int(mem_gb * (1 << 30))
        resource.setrlimit(resource.RLIMIT_AS, (lim, lim))
        os.setsid()
    return f


def classify(prop):
    parts = prop.rsplit(".", 2)
    return parts[-2] if len(parts) == 3 else "other"


class HarnessResult:
    def __init__(self, name):
        self.name = name
        self.status = "error"       # ok | failed | unwind | timeout | oom | error | vacuous
        self.failed = []            # [(property, description, location)]
        self.covers = {}            # description -> satisfied?
        self.n_props = 0
        self.n_checked = 0
        self.time_s = 0.0
        self.solver_s = 0.0
        self.symex_s = 0.0
        self.vccs = 0
        self.detail = ""
        self.unwindset = ""
        self.goto = None
        self.cbmc_cmd = None
        self.unreachable_asserts = 0

    def to_json(self):
        return {k: getattr(self, k) for k in
                ("name", "status", "failed", "covers", "n_props", "n_checked", "time_s", "solver_s",
                 "symex_s", "vccs", "detail", "unwindset")}


def prepare_goto(ws, name, workdir):
    meta = ws.harness_meta.get(name)
    if meta is None:
        raise SetupError("harness %s not found in kani metadata" % name)
    src = meta["goto_file"].replace(".symtab.out", ".out")
    dst = os.path.join(workdir, re.sub(r"[^A-Za-z0-9_]", "_", name) + ".out")
    shutil.copy(src, dst)
    steps = [
        ["goto-cc", dst, "--function", meta["mangled_name"], "-o", dst],
        ["goto-instrument", "--add-library", "--no-malloc-may-fail", dst, dst],
        ["goto-instrument", "--generate-function-body-options", "assert-false-assume-false",
         "--generate-function-body", ".*", "--drop-unused-functions", dst, dst],
        ["goto-instrument", "--ensure-one-backedge-per-target", dst, dst],
    ]
    for s in steps:
        p = subprocess.run(s, stdout=subprocess.PIPE, stderr=subprocess.STDOUT, text=True)
        if p.returncode != 0:
            raise SetupError("%s failed for %s:\n%s" % (s[0], name, p.stdout[-2000:]))
    return dst, meta


def loops_of(goto):
    p = subprocess.run(["cbmc", "--show-loops", "--json-ui", goto], stdout=subprocess.PIPE,
                       stderr=subprocess.DEVNULL, text=True)
    out = []
    try:
        for x in json.loads(p.stdout):
            for l in x.get("loops", []):
                sl = l.get("sourceLocation", {})
                out.append((l["name"], "%s %s" % (sl.get("file", ""), sl.get("function", ""))))
    except Exception:
        pass
    return out


def verify(ws, job, workdir):
    """job: dict(harness, unwind, unwindset=[(substr, bound)], timeout_s, mem_gb, solver)"""
    name = job["harness"]
    res = HarnessResult(name)
    t0 = time.time()
    try:
        goto, meta = prepare_goto(ws, name, workdir)
    except SetupError as e:
        res.detail = str(e)
        return res
    res.goto = goto
    unwind = job.get("unwind") or meta["attributes"].get("unwind_value") or 2
    uws = []
    rules = job.get("unwindset") or []
    if rules:
        for lname, where in loops_of(goto):
            for pat, bound in rules:
                if pat in where or pat in lname:
                    uws.append("%s:%d" % (lname, bound))
                    break
    cmd = CBMC_BASE + ["--unwind", str(unwind), "--sat-solver", job.get("solver", "cadical")]
    if uws:
        cmd += ["--unwindset", ",".join(uws)]
        res.unwindset = ",".join("%s:%s" % (pat, b) for pat, b in rules)
    cmd += [goto]
    res.cbmc_cmd = list(cmd)
    cmd += ["--json-ui", "--verbosity", "8"]
    outp = goto + ".json"
    timeout = job.get("timeout_s", 600)
    try:
        with open(outp, "w") as f:
            p = subprocess.Popen(cmd, stdout=subprocess.PIPE, stderr=subprocess.DEVNULL,
                                 preexec_fn=_limits(job.get("mem_gb", 10)))
            th = threading.Thread(target=_filter_json, args=(p.stdout, f))
            th.start()
            try:
                p.wait(timeout=timeout)
            except subprocess.TimeoutExpired:
                os.killpg(p.pid, 9)
                p.wait()
                th.join()
                res.status = "timeout"
                res.detail = "no verdict within %ds" % timeout
                res.time_s = time.time() - t0
                return res
            th.join()
    except Exception as e:  # pragma: no cover
        res.detail = "cannot run cbmc: %r" % e
        return res
    res.time_s = time.time() - t0
    parse_cbmc_json(outp, res, p.returncode)
    return res


_NOISE = (b"Unwinding loop", b"Not unwinding", b"aborting path", b"Unwinding recursion")


def _filter_json(src, dst):
    """CBMC's --json-ui stream is a top-level array of objects, one `{`...`}` per message, each
    starting with a line `  {` and ending with `  }` or `  },`.  Statistics verbosity (needed for
    solver times) also emits one message per loop unwinding; those are dropped here."""
    buf = []
    depth0 = False
    for line in src:
        if not depth0:
            if line.rstrip() == b"  {":
                depth0 = True
                buf = [line]
            else:
                dst.write(line.decode("utf-8", "replace"))
            continue
        buf.append(line)
        if line.rstrip() in (b"  }", b"  },"):
            blob = b"".join(buf)
            if not any(n in blob for n in _NOISE):
                dst.write(blob.decode("utf-8", "replace"))
            depth0 = False
            buf = []
    if buf:
        dst.write(b"".join(buf).decode("utf-8", "replace"))


def parse_cbmc_json(path, res, rc):
    try:
        data = json.load(open(path))
    except Exception as e:
        txt = open(path, errors="replace").read()[-600:]
        if "bad_alloc" in txt or "Out of memory" in txt or rc in (-9, -6, 134, 137):
            res.status = "oom"
        res.detail = "unparsable cbmc output (rc=%s): %s" % (rc, txt[-300:])
        if res.status != "oom":
            res.status = "oom" if rc in (-6, -9, 134, 137) else "error"
        return
    results = None
    status = None
    errors = []
    for x in data:
        if "result" in x:
            results = x["result"]
        if "cProverStatus" in x:
            status = x["cProverStatus"]
        if x.get("messageType") == "STATUS-MESSAGE":
            t = x.get("messageText", "")
            m = re.match(r"Runtime Solver: ([0-9.e+-]+)s", t)
            if m:
                res.solver_s += float(m.group(1))
            m = re.match(r"Runtime Symex: ([0-9.e+-]+)s", t)
            if m:
                res.symex_s += float(m.group(1))
            m = re.match(r"Generated (\d+) VCC", t)
            if m:
                res.vccs = int(m.group(1))
        if x.get("messageType") == "ERROR":
            res.detail += x.get("messageText", "")[:300]
            errors.append(x.get("messageText", ""))
    if errors:
        # e.g. "Solver ran out of memory during propositional reduction": CBMC then marks properties
        # FAILURE without having decided them.  Never a verdict.
        res.status = "oom" if any("memory" in e for e in errors) else "error"
        res.detail = "cbmc error: " + "; ".join(e[:160] for e in errors[:2])
        return
    if results is None:
        res.status = "oom" if rc in (-6, -9, 134, 137) else "error"
        res.detail = (res.detail or "") + " no result section (rc=%s)" % rc
        return
    reach = {}
    for r in results:
        if classify(r["property"]) == "reachability_check":
            reach[r["description"]] = (r["status"] == "FAILURE")  # FAILURE == reachable
    unwind_fail = []
    for r in results:
        cls = classify(r["property"])
        desc = r.get("description", "")
        loc = r.get("sourceLocation", {})
        where = "%s:%s %s" % (loc.get("file", "?"), loc.get("line", "?"), loc.get("function", ""))
        if cls == "reachability_check":
            continue
        res.n_props += 1
        m = re.match(r"\[(KANI_CHECK_ID_[^\]]+)\] ?(.*)", desc, re.S)
        cid = None
        if m:
            cid, desc = m.group(1), m.group(2)
        if cls == "cover":
            res.covers[desc] = (r["status"] == "FAILURE")
            continue
        if r["status"] == "SUCCESS":
            res.n_checked += 1
            if cid is not None and reach.get(cid) is False:
                res.unreachable_asserts += 1
            continue
        if cls == "unwind" or "unwinding assertion" in desc:
            unwind_fail.append((r["property"], desc, where))
        elif cls == "unsupported_construct":
            res.failed.append((r["property"], "UNSUPPORTED: " + desc, where))
        else:
            res.failed.append((r["property"], desc, where))
    real = [f for f in res.failed if not f[1].startswith("UNSUPPORTED")]
    if real:
        res.status = "failed"
    elif res.failed:
        res.status = "error"
        res.detail = "unsupported construct reached: %s" % res.failed[0][1]
    elif unwind_fail:
        res.status = "unwind"
        res.failed = unwind_fail
        res.detail = "unwinding assertion failed: %s" % unwind_fail[0][2]
    elif any(v is False for k, v in res.covers.items() if not k.rstrip('"').endswith("(opt)")):
        res.status = "vacuous"
        res.detail = "cover not satisfied: %s" % [k for k, v in res.covers.items() if not v and not k.rstrip('"').endswith("(opt)")]
    else:
        res.status = "ok"


def run_jobs(ws, jobs, workdir, max_par=14, mem_budget_gb=52, progress=None):
    """Runs jobs (most expensive first) under a memory budget."""
    os.makedirs(workdir, exist_ok=True)
    jobs = sorted(jobs, key=lambda j: -j.get("cost", 1))
    lock = threading.Condition()
    state = {"mem": 0.0}
    results = {}

    def worker(job):
        need = job.get("mem_gb", 10)
        with lock:
            while state["mem"] + need > mem_budget_gb and state["mem"] > 0:
                lock.wait()
            state["mem"] += need
        try:
            r = verify(ws, job, workdir)
        finally:
            with lock:
                state["mem"] -= need
                lock.notify_all()
        results[job["harness"]] = r
        if progress:
            progress(r)
        return r

    with ThreadPoolExecutor(max_workers=max_par) as ex:
        list(ex.map(worker, jobs))
    return results


def trace_for(res, prop, timeout=900, mem_gb=20):
    """Re-runs CBMC for one failing property with --trace and returns the nondet inputs
    (values returned by kani::any_raw*), in program order, as lists of byte values."""
    # no --slice-formula here: slicing drops the assignments of inputs the failing property does not
    # depend on, and the replay needs EVERY kani::any() value, in call order
    base = [c for c in res.cbmc_cmd if c != "--slice-formula"]
    if ".unwind." in prop:
        # unwinding assertions are created during symbolic execution and cannot be selected with
        # --property: ask for all traces and pick the one wanted
        cmd = base + ["--trace", "--json-ui"]
    else:
        cmd = base + ["--property", prop, "--trace", "--json-ui"]
    outp = res.goto + ".trace.json"
    with open(outp, "w") as f:
        p = subprocess.Popen(cmd, stdout=f, stderr=subprocess.DEVNULL, preexec_fn=_limits(mem_gb))
        try:
            p.wait(timeout=timeout)
        except subprocess.TimeoutExpired:
            os.killpg(p.pid, 9)
            p.wait()
            return None
    try:
        data = json.load(open(outp))
    except Exception:
        return None
    for x in data:
        for r in x.get("result", []):
            if r["property"] == prop and r["status"] == "FAILURE" and "trace" in r:
                return r["trace"]
    return None
