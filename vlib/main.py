"""./check <Cxx> [--tier quick|thorough] [--replay file]

Exit 0: property held on everything explored.  Exit 1 + `VIOLATION property=<id> replay=<path>`:
a solver counterexample that reproduces natively against the real code.  Exit 2: the machinery
could not decide (build failure, timeout, out of memory, unwinding bound too small, vacuous
harness, counterexample that does not reproduce) -- never reported as a violation."""
import argparse
import hashlib
import json
import os
import shutil
import sys
import time

from . import hand, kani, plans, replay

VERIF = kani.VERIF
CLAIMED = ["C01", "C02", "C03", "C04", "C05", "C06", "C07", "C08", "C09", "C11", "C12", "C13", "C15"]

LEVEL = {p: "model_checking" for p in CLAIMED}
LEVEL["C15"] = "translation_validation"

FUNCS = {
    "T": ["DoubleArrayAhoCorasick::child_index_unchecked", "next_state_id_unchecked",
          "next_state_id_leftmost_unchecked", "State::{base,check,fail,output_pos}", "Output::{value,length,parent}",
          "CharwiseDoubleArrayAhoCorasick::{child_index_unchecked,next_state_id_unchecked,next_state_id_leftmost_unchecked}",
          "CodeMapper::get", "num_states", "num_elements", "heap_bytes"],
    "A": ["deserialize_unchecked (whole image)", "SerializableVec::deserialize_from_slice", "PartialEq for the automaton"],
    "E": ["find_iter", "find_overlapping_iter", "find_overlapping_no_suffix_iter", "leftmost_find_iter",
          "the four Iterator::next impls of each variant", "CharWithEndOffsetIterator::next", "Match::{start,end,value}"],
}


def known_findings():
    path = os.path.join(VERIF, "known-findings.txt")
    out = []
    if os.path.exists(path):
        for line in open(path):
            line = line.strip()
            if line and not line.startswith("#") and not line.startswith("fixed:"):
                out.append(line)
    return out


def main(argv=None):
    ap = argparse.ArgumentParser()
    ap.add_argument("prop")
    ap.add_argument("--tier", default=os.environ.get("VERIF_TIER", "quick"), choices=["quick", "thorough"])
    ap.add_argument("--replay")
    ap.add_argument("--keep", action="store_true", help="keep the scratch directory")
    ap.add_argument("--only", help="substring filter on harness names (development aid; evidence marks it)")
    args = ap.parse_args(argv)
    prop = args.prop
    seed = int(os.environ.get("VERIF_SEED", "1") or 1)
    if args.replay:
        return replay.replay_file(args.replay)
    if prop not in CLAIMED:
        print("property %s is not claimed by this machinery (MANIFEST.json not_applicable)" % prop)
        return 2
    t0 = time.time()
    scratch = os.environ.get("VERIF_SCRATCH") or "/var/tmp/daac-verif.%d" % os.getpid()
    os.makedirs(scratch, exist_ok=True)
    try:
        return run_check(prop, args.tier, seed, scratch, t0, args)
    finally:
        if not args.keep and not os.environ.get("VERIF_KEEP"):
            shutil.rmtree(scratch, ignore_errors=True)


def run_check(prop, tier, seed, scratch, t0, args):
    plan = plans.plan_for(prop, tier, seed)
    hand_names = ["selftest::twin_ok", "selftest::twin_fail"] + plan.hand
    modules = hand.modules_for(hand_names)
    try:
        ws = kani.Workspace(scratch, plan.text(), modules)
        for line in ws.gen_stdout.splitlines():
            if line.startswith("NOTE"):
                print(line)
        ws.codegen()
    except kani.SetupError as e:
        print("ERROR " + str(e)[:3000])
        return 2
    built = [g for g in ws.gen if g.get("built")]
    if plan.entries and len(built) * 2 < len(ws.gen):
        print("ERROR fewer than half of the corpus sets build on this tree (%d/%d); nothing meaningful explored"
              % (len(built), len(ws.gen)))
        return 2

    # Native cross-check (concrete, not solver-decided): the tables the solver validates must be the
    # tables a serialise/deserialise round trip restores, otherwise nothing can be said about restored
    # automata (C07, C09).  A mismatch makes the run inconclusive; it is never reported as a violation.
    image_notes = ["%s: deserialize_unchecked(serialize() ++ 2 bytes) does not restore the same tables/remainder "
                   "(native cross-check; not a solver verdict)" % g["name"] for g in built if not g.get("ser_identical", True)]
    for line in image_notes:
        print("NOTE " + line)

    jobs = []
    meta = {}
    for g in built:
        big = g["nslot"] > 600 or (g["variant"] == "charwise" and g.get("alphabet", 0) and g["nslot"] >= 0)
        for h in g["harnesses"]:
            fam = h["family"]
            cost = (g["nslot"] + g.get("nmap", 0) // 8) * (4 if fam == "T2" else 1)
            if fam.startswith("E"):
                cost = 10 ** 6 * h.get("L", 2)
            job = dict(harness=h["harness"], unwind=h["unwind"], unwindset=h.get("unwindset"),
                       timeout_s=hand.TIMEOUT[tier]["E" if fam.startswith("E") else "T"],
                       mem_gb=(12 if (h.get("L", 2) + len(h.get("prefix", "")) // 2) * (g.get("maxchain", 1) if h.get("method") == "ovl" else 1) <= 4
                               and h.get("L", 2) + len(h.get("prefix", "")) // 2 <= 2 and g["nslot"] <= 600 else 24) if fam.startswith("E") else (16 if g.get("nmap", 0) > 20000 or g["nslot"] > 3000 else (8 if g["nslot"] > 600 else 5)), cost=cost)
            jobs.append(job)
            meta[h["harness"]] = dict(family=fam, automaton=g["name"], gen=g, h=h)
    for hn in hand_names:
        job = hand.job(hn, tier)
        jobs.append(job)
        meta[job["harness"]] = dict(family=hand.family_of(hn), automaton=None, gen=None, h=job)
    if args.only:
        jobs = [j for j in jobs if args.only in j["harness"] or j["harness"].startswith("selftest::")]

    def progress(r):
        print("  [%6.1fs] %-44s %-8s %s" % (r.time_s, r.name, r.status, (r.detail or "")[:100]), flush=True)

    print("check %s tier=%s seed=%d: %d automata, %d harnesses (codegen %.0fs)"
          % (prop, tier, seed, len(built), len(jobs), ws.codegen_s), flush=True)
    results = kani.run_jobs(ws, jobs, os.path.join(scratch, "work"), progress=progress,
                            max_par=int(os.environ.get("VERIF_JOBS", "14")),
                            mem_budget_gb=int(os.environ.get("VERIF_MEM_GB", "52")))

    # --- self-test of the pipeline (DESIGN.md section 5) ---
    inconclusive = list(image_notes) if prop in ("C07", "C09", "C06") else []
    st_ok = results.get("selftest::twin_ok")
    st_bad = results.get("selftest::twin_fail")
    traces_validated = 0
    if not st_ok or st_ok.status != "ok":
        inconclusive.append("self-test: twin_ok is %s" % (st_ok.status if st_ok else "missing"))
    if not st_bad or st_bad.status != "failed":
        inconclusive.append("self-test: twin_fail was not reported FAILED (%s)" % (st_bad.status if st_bad else "missing"))
    else:
        ok, info = replay.confirm(ws, st_bad, meta["selftest::twin_fail"], scratch)
        if ok:
            traces_validated += 1
        else:
            inconclusive.append("self-test: twin_fail counterexample did not reproduce natively (%s)" % info)

    violations = []
    known = known_findings()
    for name, r in sorted(results.items()):
        if name.startswith("selftest::"):
            continue
        if r.status == "ok":
            continue
        if r.status == "failed":
            ok, info = replay.confirm(ws, r, meta[name], scratch)
            if ok and meta[name].get("family") in ("I", "S"):
                # An inductive step from an ARBITRARY table/state may fail on a pre-state no built automaton
                # reaches (the representation invariant Inv is an over-approximation).  It is reported only
                # with a public-API witness on a really built automaton (DESIGN.md 2.4).
                traces_validated += 1
                w = replay.witness_for_step(ws, name, prop, seed, scratch)
                if w and w.get("haystack_hex") is not None:
                    info["witness"] = w
                    violations.append((name, r, info))
                else:
                    inconclusive.append("%s: step counterexample reproduces natively on an arbitrary table but no public-API "
                                        "witness was found on the corpus automata (Inv too weak, or a layout the corpus lacks): %s"
                                        % (name, "; ".join(f[1] for f in r.failed[:2])))
            elif ok:
                traces_validated += 1
                violations.append((name, r, info))
            else:
                inconclusive.append("%s: counterexample does not reproduce natively (%s)" % (name, info))
        elif r.status == "unwind":
            # A loop that needs more iterations than the data-derived bound: either the bound in
            # /verif is too small (inconclusive) or the loop really does not terminate on some input.
            # The latter is decided natively: replay the model's values under a watchdog.
            ok, info = replay.confirm(ws, r, meta[name], scratch, hang_only=True)
            if ok:
                traces_validated += 1
                violations.append((name, r, info))
            else:
                inconclusive.append("%s: unwinding assertion failed and the model does not hang natively: bound too small? %s"
                                    % (name, r.detail[:160]))
        else:
            inconclusive.append("%s: %s %s" % (name, r.status, r.detail[:200]))

    wall = time.time() - t0
    write_evidence(prop, tier, seed, ws, results, meta, violations, inconclusive, traces_validated, wall, args)

    rc = 0
    reported = 0
    for name, r, info in violations:
        key = info.get("key", name)
        matched = [k for k in known if k.startswith("property=%s " % prop) and key in k]
        if matched:
            print("KNOWN-FINDING: property=%s %s" % (prop, key))
            continue
        rdir = os.environ.get("VERIF_REPLAY_DIR") or os.path.join(VERIF, "replays")
        os.makedirs(rdir, exist_ok=True)
        hsh = hashlib.sha1(json.dumps(info, sort_keys=True, default=str).encode()).hexdigest()[:10]
        path = os.path.join(rdir, "%s-%s.json" % (prop, hsh))
        json.dump(info, open(path, "w"), indent=1, default=str)
        print("VIOLATION property=%s replay=%s" % (prop, path))
        print("  harness %s: %s" % (name, "; ".join(f[1] for f in r.failed[:3])))
        if info.get("witness"):
            print("  witness: %s" % json.dumps(info["witness"], default=str)[:400])
        reported += 1
        rc = 1
    if rc == 0 and inconclusive:
        for line in inconclusive[:20]:
            print("INCONCLUSIVE " + line)
        rc = 2
    ok_n = sum(1 for n, r in results.items() if r.status == "ok")
    print("check %s: %d/%d harnesses decided OK, %d violation(s), %d inconclusive, %.0fs"
          % (prop, ok_n, len(results), reported, len(inconclusive), wall))
    return rc


def write_evidence(prop, tier, seed, ws, results, meta, violations, inconclusive, traces_validated, wall, args):
    states = 0
    transitions = 0
    samples = []
    seen_auto = set()
    harness_rows = []
    nontrivial = set()
    for name, r in sorted(results.items()):
        m = meta.get(name, {})
        g = m.get("gen")
        fam = m.get("family", "?")
        row = dict(harness=name, family=fam, status=r.status, cbmc_properties=r.n_props,
                   covers=r.covers, wall_s=round(r.time_s, 1), solver_s=round(r.solver_s, 2),
                   symex_s=round(r.symex_s, 2), vccs=r.vccs, unwindset=r.unwindset)
        if g:
            row["automaton"] = g["name"]
            labels = 256 if g["variant"] == "bytewise" else plans.ALL_CHARS
            if fam in ("T1", "T2", "T5") and r.status == "ok":
                states += g["ns"]
                transitions += g["ns"] * labels
            elif fam in ("T34", "T6", "A") and r.status == "ok":
                states += g["ns"]
                transitions += g["ns"]
            elif fam.startswith("E") and r.status == "ok":
                L = m["h"].get("L", 0)
                states += 1
                transitions += (256 if g["variant"] == "bytewise" else plans.ALL_CHARS) ** min(L, 2)
            if g["name"] not in seen_auto:
                seen_auto.add(g["name"])
                samples.append(dict(automaton=g["name"], variant=g["variant"], kind=g["kind"], nfb=g["nfb"],
                                    vtype=g["vtype"], patterns=g["patterns"][:12], npatterns=g["npatterns"],
                                    slots=g["nslot"], ref_states=g["ns"], outputs=g["nout"],
                                    image_roundtrip_identical=g["ser_identical"]))
        else:
            b = hand.bounds_of(name, tier)
            row["bounds"] = b
            if r.status == "ok":
                states += b.get("states", 1)
                transitions += b.get("transitions", 1)
        if r.status == "ok" and all(v for k, v in r.covers.items() if not k.rstrip('"').endswith("(opt)")):
            nontrivial.add((name, g["name"] if g else ""))
        harness_rows.append(row)
    not_built = [dict(automaton=g["name"], error=g.get("error")) for g in ws.gen if not g.get("built")]
    fams = sorted({m.get("family", "?")[0] for m in meta.values()})
    funcs = []
    for f in fams:
        funcs += FUNCS.get(f, [])
    funcs += hand.functions_of([n for n in results if "::" in n and not n.startswith("gen::")])
    cov = dict(
        states=max(states, 0), transitions=max(transitions, 0),
        traces_validated_against_impl=traces_validated,
        samples=(samples[:40] or [dict(harness=h["harness"], bounds=h.get("bounds")) for h in harness_rows[:10]]),
        evaluations=len(results), distinct_nontrivial=len(nontrivial),
        rule="one evaluation = one Kani harness decided by CBMC over all values of its symbolic inputs; "
             "distinct = distinct (harness, automaton) pairs; non-trivial = verdict SUCCESSFUL with every "
             "essential kani::cover! witness SATISFIED (witnesses tagged (opt) depend on the automaton and are only recorded)",
        exhaustive=False,
        explanation="states = reference states (or symbolic-table instances) quantified over by SUCCESSFUL "
                    "harnesses; transitions = states x labels decided (256 bytes, or all %d Unicode scalar values)" % plans.ALL_CHARS,
        engine="Kani 0.68.0 compiler -> goto-cc/goto-instrument -> CBMC 6.11.0 (cadical), unwinding assertions on",
        functions_encoded=sorted(set(funcs)),
        harnesses=harness_rows,
        queries_discharged=sum(r.n_checked for r in results.values()),
        solver_time_s=round(sum(r.solver_s for r in results.values()), 1),
        symex_time_s=round(sum(r.symex_s for r in results.values()), 1),
        corpus_sets_not_built=not_built,
        inconclusive=inconclusive[:50],
        repo=kani.REPO,
    )
    if args.only:
        cov["filtered_run"] = args.only
    ev = dict(property_id=prop, tier=tier, seed=seed, level=LEVEL[prop], coverage=cov,
              assumptions=hand.assumptions_for(prop, meta), wall_s=round(wall, 1), violations=len(violations))
    if LEVEL[prop] == "translation_validation":
        cov["programs"] = len(seen_auto)
        cov["disagreements_checked"] = traces_validated
    evdir = os.environ.get("VERIF_EVIDENCE_DIR") or os.path.join(VERIF, "evidence")
    os.makedirs(evdir, exist_ok=True)
    json.dump(ev, open(os.path.join(evdir, prop + ".json"), "w"), indent=1, default=str)


if __name__ == "__main__":
    try:
        rc = main()
    except SystemExit as e:
        rc = e.code if isinstance(e.code, int) else 2
    except BaseException as e:  # never let a crash of the machinery look like a verdict
        import traceback
        traceback.print_exc()
        print("ERROR internal failure of the checking machinery: %r" % (e,))
        rc = 2
    sys.exit(rc)
