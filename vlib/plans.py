"""Which automata and which harnesses decide which property, per tier (DESIGN.md section 4)."""
import random

from . import corpus
from .corpus import Entry

ALL_CHARS = 0x110000 - 0x800


def _seeded_bw(seed, n, kind="standard", prefix="sd"):
    rng = random.Random(1000003 * seed + 17)
    out = []
    for i in range(n):
        pats = corpus.gen_bw(rng, i)
        # both construction entry points: every second set goes through build_with_values()
        vr = random.Random(seed * 13 + i)   # separate stream: the pattern sets do not depend on it
        vals = [vr.choice([0, 7, 7, 2 ** 32 - 1, vr.randrange(2 ** 32)]) for _ in pats] if i % 2 else None
        out.append(Entry("%s%d_%s" % (prefix, i, kind[:2]), "bytewise", kind, pats, values=vals,
                         note="seeded(%d)" % seed))
    return out


def _tangle_bw(seed, n, kind="standard", variant="bytewise"):
    rng = random.Random(500009 * seed + 11 + len(kind))
    return [Entry("tg%d_%s%s" % (i, kind[:2], "c" if variant == "charwise" else ""), variant, kind,
                  corpus.gen_bw_tangle(rng, i), note="seeded-tangle(%d)" % seed) for i in range(n)]


def _infix_bw(seed, n, kind="standard"):
    rng = random.Random(300007 * seed + 29 + len(kind))
    return [Entry("ix%d_%s" % (i, kind[:2]), "bytewise", kind, corpus.gen_bw_infix(rng, i), note="seeded-infix(%d)" % seed)
            for i in range(n)]


def _edge_bw(seed, n, kind="standard"):
    rng = random.Random(900007 * seed + 3)
    return [Entry("ed%d_%s" % (i, kind[:2]), "bytewise", kind, corpus.gen_bw_edge(rng, i), note="seeded-edge(%d)" % seed)
            for i in range(n)]


def _seeded_cw(seed, n, kind="standard", prefix="sc"):
    rng = random.Random(7000001 * seed + 5)
    out = []
    for i in range(n):
        pats = corpus.gen_cw(rng, i)
        vr = random.Random(seed * 17 + i)
        vals = [vr.choice([0, 9, 9, 2 ** 32 - 1, vr.randrange(2 ** 32)]) for _ in pats] if i % 2 == 0 else None
        out.append(Entry("%s%d_%s" % (prefix, i, kind[:2]), "charwise", kind, pats, values=vals,
                         note="seeded(%d)" % seed))
    return out


def bw(name, kind="standard", **kw):
    return Entry("bw_%s_%s" % (name, kind[:2]) + kw.pop("suffix", ""), "bytewise", kind,
                 corpus.bw_fixed()[name], **kw)


def cw(name, kind="standard", **kw):
    return Entry("cw_%s_%s" % (name, kind[:2]) + kw.pop("suffix", ""), "charwise", kind,
                 corpus.cw_fixed()[name], **kw)


def perms3(pats):
    import itertools
    return [list(p) for p in itertools.permutations(pats)]


class Plan:
    def __init__(self):
        self.entries = []
        self.hand = []       # names of hand-written harnesses (see hand.py)

    def add(self, e, *fams):
        e.emit(*fams)
        self.entries.append(e)
        return e

    def text(self):
        return "".join(e.plan() for e in self.entries)


def plan_for(prop, tier, seed):
    """Returns a Plan.  Families: T1 T2 T34 T5 T6, E:m=..,L=..[,pre=hex]."""
    q = tier == "quick"
    P = Plan()
    TSTD = ("T1", "T2", "T34")

    def std_core(fams, e_method=None):
        # byte-wise standard automata
        P.add(bw("unit"), *fams)
        P.add(bw("bin"), *fams)
        P.add(bw("chain"), *fams)
        P.add(bw("blk_1_2"), *fams)
        P.add(bw("fan"), *fams)
        for e in _seeded_bw(seed, 3 if q else 12):
            P.add(e, *fams)
        for e in _edge_bw(seed, 24 if q else 64):
            P.add(e, "T1")
        for e in _tangle_bw(seed, 8 if q else 24) + _infix_bw(seed, 6 if q else 16):
            P.add(e, "T2", "T34")
        cwset = ["ab", "ba", "abab", "bbab", "aabb", "babb", "aaab", "bbba", "abba", "baab", "aaaa", "bbbb"]
        P.add(Entry("cw_blocks_n1", "charwise", "standard", cwset, nfb=1), "T1", "T2")   # char-wise eviction
        # char-wise eviction with a window of 3 blocks over a 13-letter kana alphabet (the fallback-base path of the
        # char-wise builder after an eviction; edges only: a few seconds)
        cw13 = [a + b for a in "あいうえおかきくけこさしす" for b in "あいう"] + ["すすす", "ああい", "いうえお"]
        P.add(Entry("cw_kana_n3", "charwise", "standard", cw13, nfb=3), "T1")
        if q:
            # evicting multi-block builds, edges only (T1 on 1536 slots: ~20 s)
            P.add(bw("evict3", nfb=1, suffix="_n1"), "T1")
            P.add(bw("fanx", nfb=2, suffix="_n2"), "T1")
        if not q:
            for n in ("blk_1_1", "blk_2_1", "blk_2_2", "find_reset", "hard_lm"):
                P.add(bw(n), *fams)
            P.add(bw("evict3", nfb=1, suffix="_n1"), *fams)
            P.add(bw("evict3", suffix="_n16"), *fams)
            P.add(bw("fanx", nfb=2, suffix="_n2"), *fams)
            rng = random.Random(seed * 31 + 7)
            P.add(Entry("bw_big_st", "bytewise", "standard", corpus.gen_bw_big(rng), nfb=2), *fams)
        # char-wise standard automata
        for n in ("a3", "a4", "a5", "w123", "greek"):
            P.add(cw(n), *fams)
        for e in _seeded_cw(seed, 2 if q else 8):
            P.add(e, *fams)
        if not q:
            for n in ("a1", "a2", "thai", "cjk", "tokyo"):
                P.add(cw(n), *fams)
            # 128 k-entry mapper table: T2 (two symbolic reads of it) exceeds 16 GB; T1 takes ~15 min
            P.add(cw("astral"), *[f for f in fams if f != "T2"])
        if e_method:
            L = 2 if q else 3
            P.add(bw("find_reset", suffix="_e"), "E:m=%s,L=%d" % (e_method, L))
            P.add(cw("w123", suffix="_e"), "E:m=%s,L=2" % e_method)
            if not q:
                # overlapping with output chains of 3: L = 3 needs > 24 GB, keep L = 2 there
                Lu = 2 if e_method == "ovl" else L
                P.add(bw("unit", suffix="_e"), "E:m=%s,L=%d" % (e_method, Lu))
                P.add(bw("bin", suffix="_e"), "E:m=%s,L=%d" % (e_method, Lu))
                P.add(cw("thai", suffix="_e"), "E:m=%s,L=%d" % (e_method, 2))   # char-wise E stays at 2 chars (3 chars: > 24 GB)
                for pre in (("61", "62") if e_method == "ovl" else ("6162", "6263", "61")):
                    P.add(bw("find_reset", suffix="_p" + pre), "E:m=%s,L=2,pre=%s" % (e_method, pre))

    def lm_core(kind, fams, withE=True):
        sets = ["hard_lm", "hard_lm2", "chain", "bin"]
        for n in sets:
            P.add(bw(n, kind), *fams)
        for e in _seeded_bw(seed, 2 if q else 8, kind):
            P.add(e, *fams)
        # dense prefix/suffix/infix relations: the per-state leftmost oracle on many small automata
        for e in _tangle_bw(seed, 16 if q else 40, kind):
            P.add(e, "T2", "T34")
        for e in _tangle_bw(seed + 1, 4 if q else 10, kind, "charwise"):
            P.add(e, "T2", "T34")
        for e in _infix_bw(seed, 12 if q else 32, kind):
            P.add(e, "T2", "T34")
        for n in (("w123", "a4", "thai") if q else ("w123", "a4", "a2", "a5", "thai", "tokyo", "cjk", "astral")):
            P.add(cw(n, kind), *fams)
        for e in _seeded_cw(seed, 1 if q else 6, kind):
            P.add(e, *fams)
        if kind == "first":
            # registration order is the input: all orders of 3-sets with shadowing
            bases = [["ab", "abc", "b"], ["abcde", "ab", "abcd"]] if q else \
                [["ab", "abc", "b"], ["abcde", "ab", "abcd"], ["a", "ab", "ba"], ["abcd", "a", "c"]]
            for bi, base in enumerate(bases):
                for pi, p in enumerate(perms3(base)):
                    if q and bi > 0 and pi % 2:
                        continue
                    P.add(Entry("bw_ord%d_%d_fi" % (bi, pi), "bytewise", "first", p), *fams)
                    if withE and (bi == 0 or (not q and bi == 1)):
                        P.add(Entry("bw_ord%d_%d_fi_e" % (bi, pi), "bytewise", "first", p),
                              "E:m=lm,L=%d" % (2 if q else 3))
            # char-wise orders: Greek letters in the quick tier (1.2 k-entry mapper table), CJK in the thorough one
            for pi, p in enumerate(perms3(["αβ", "αβγ", "βγ"] if q else ["東京", "東京都", "京都"])):
                if q and pi % 2:
                    continue
                P.add(Entry("cw_ord_%d_fi" % pi, "charwise", "first", p), *fams)
        if withE:
            # quick: L = 2 only (an L = 3 leftmost harness is 5-8 min / 24 GB; the per-state oracle
            # T2lm/T34lm carries the for-all-haystacks part, E is the guard on the composition)
            L = 2 if q else 4
            P.add(bw("hard_lm", kind, suffix="_e"), "E:m=lm,L=%d" % L)
            P.add(bw("hard_lm2", kind, suffix="_e"), "E:m=lm,L=%d" % L)
            P.add(cw("w123", kind, suffix="_e"), "E:m=lm,L=2")
            if not q:
                P.add(bw("hard_lm", kind, suffix="_e3"), "E:m=lm,L=3")
            # concrete prefix + 2 symbolic tail bytes, for every proper prefix shape of interest
            pres = ["61"] if q else ["61", "6162", "6263"]
            for pre in pres:
                P.add(bw("hard_lm", kind, suffix="_p" + pre), "E:m=lm,L=2,pre=" + pre)
            if not q:
                P.add(cw("thai", kind, suffix="_e"), "E:m=lm,L=2")
                P.add(cw("a4", kind, suffix="_e"), "E:m=lm,L=2")

    if prop == "C01":
        std_core(TSTD, "ovl")
        P.hand += ["i_bw::step_overlapping", "i_cw::step_overlapping"]
    elif prop == "C02":
        std_core(TSTD, "find")
        P.hand += ["i_bw::find_two_calls", "i_cw::find_two_calls"]
    elif prop == "C05":
        std_core(TSTD, "nosuf")
        P.hand += ["i_bw::step_no_suffix", "i_cw::step_no_suffix"]
    elif prop == "C03":
        lm_core("longest", ("T1", "T2", "T34"))
        P.hand += ["i_bw::leftmost_two_calls", "i_cw::leftmost_two_calls"]
    elif prop == "C04":
        lm_core("first", ("T1", "T2", "T34"))
        P.hand += ["i_bw::leftmost_two_calls", "i_cw::leftmost_two_calls"]
    elif prop == "C06":
        vt = ["u8", "u64", "i16", "u128", "usize", "i128"] if q else \
            ["u8", "u16", "u64", "u128", "i8", "i16", "i32", "i64", "i128", "usize", "isize"]
        base = corpus.bw_fixed()["unit"]
        for i, t in enumerate(vt):
            vals = [0, 2 ** 64 - 1, 7, 7, 2 ** 63]
            P.add(Entry("bw_val_%s" % t, "bytewise", "standard", base, vtype=t, values=vals), "T34")
            P.add(Entry("cw_val_%s" % t, "charwise", "standard", corpus.cw_fixed()["w123"], vtype=t,
                        values=vals), "T34")
        # index values next to the conversion limit of u8 (200 patterns), and plain usize
        many = [bytes([0x41 + i // 16, 0x61 + i % 16]) for i in range(200)]
        P.add(Entry("bw_idx_u8", "bytewise", "standard", many, vtype="u8"), "T34")
        P.add(Entry("bw_idx_usize", "bytewise", "standard", base, vtype="usize"), "T34")
        # bare patterns whose positions do NOT all fit the value type (260 > u8::MAX + 1, 130 > i8::MAX + 1): the build must fail
        # (InvalidConversion; recorded as "did not build").  If a tree builds them, every value reported for the positions
        # that do not fit is wrong by definition: T34 refutes it through OUT_REPR.
        over = [bytes([0x41 + i // 16, 0x61 + i % 16]) for i in range(260)]
        P.add(Entry("bw_idx_u8_over", "bytewise", "standard", over, vtype="u8"), "T34")
        P.add(Entry("bw_idx_i8_over", "bytewise", "standard", over[:130], vtype="i8"), "T34")
        P.add(Entry("cw_idx_u8_over", "charwise", "standard", [p.decode() for p in over], vtype="u8"), "T34")
        P.add(Entry("bw_val_lm", "bytewise", "longest", base, vtype="i64", values=[0, 2 ** 64 - 1, 7, 7, 9]), "T34")
        P.add(Entry("bw_val_lf", "bytewise", "first", base, vtype="u16", values=[0, 65535, 7, 7, 9]), "T34")
        P.add(bw("find_reset", suffix="_ev"), "E:m=ovl,L=2")
        P.add(cw("astral", vtype="u16", suffix="_v"), "T34")   # 4-byte pattern chars: byte lengths
        P.add(cw("bound", vtype="u64", suffix="_v"), "T34")    # chars at the UTF-8 width boundaries
        P.hand += ["u_ser::bw_state", "u_ser::cw_state", "u_ser::packed"]   # output_pos / check accessors vs raw words
        from .hand import U_VAL_NAMES
        quick_vals = [n for n in U_VAL_NAMES if n.split("_")[1] in ("u8", "u128", "i64", "empty", "usize")]
        P.hand += ["u_val::" + h for h in (quick_vals if q else U_VAL_NAMES)]
    elif prop == "C07":
        fams = ("T5",)
        for n in ("unit", "bin", "blk_1_2", "fan", "blk_2_2", "spill_nul", "nul_chain"):
            P.add(bw(n), *fams)
        for kind in ("longest", "first"):
            P.add(bw("hard_lm", kind), *fams)
            P.add(bw("bin", kind), *fams)
        P.add(bw("evict3", nfb=1, suffix="_n1"), *fams)
        for e in _seeded_bw(seed, 3 if q else 24):
            P.add(e, *fams)
        for e in _edge_bw(seed, 12 if q else 64):
            P.add(e, *fams)
        for n in ("a1", "a2", "a3", "a4", "a5", "w123"):
            P.add(cw(n), *fams)
            P.add(cw(n, "longest"), *fams)
        P.add(Entry("cw_shadow_fi", "charwise", "first", ["ab", "ba", "abcdef"]), *fams)
        P.add(Entry("cw_shadow2_fi", "charwise", "first", ["ab", "abcde", "b", "abxyz"]), *fams)
        for e in _seeded_cw(seed, 3 if q else 16):
            P.add(e, *fams)
        for e in _seeded_cw(seed + 1, 2 if q else 10, "first"):
            P.add(e, *fams)
        if not q:
            P.add(bw("evict3", nfb=2, suffix="_n2"), *fams)
            for n in ("thai", "cjk", "tokyo", "astral"):
                P.add(cw(n), *fams)
            rng = random.Random(seed * 31 + 7)
            P.add(Entry("bw_big_st", "bytewise", "standard", corpus.gen_bw_big(rng), nfb=2), *fams)
        P.hand += ["u_utf8::two_chars", "u_utf8::three_chars_offsets", "i_bw::step_overlapping",
                   "i_cw::step_overlapping", "i_bw::leftmost_two_calls", "i_cw::leftmost_two_calls"]
    elif prop == "C08":
        fams = TSTD
        names = ("w123", "greek", "thai") if q else ("w123", "greek", "thai", "cjk", "tokyo", "astral", "a5")
        for n in names:
            # astral: two symbolic reads of a 128 k-entry mapper table (T2) exceed 16 GB
            P.add(cw(n), *[f for f in fams if not (n == "astral" and f == "T2")])
            P.add(Entry("bw_as_%s_st" % n, "bytewise", "standard", corpus.cw_fixed()[n]), *fams)
        for kind in ("longest", "first"):
            P.add(cw("w123", kind), "T1", "T2", "T34", "T5")
        if q:
            P.add(cw("astral", suffix="_len"), "T34")   # 4-byte pattern chars: output byte lengths (no mapper read)
        P.add(cw("bound", suffix="_len"), "T34")        # chars at the UTF-8 width boundaries
        for m in ("ovl", "find", "nosuf"):
            P.add(cw("w123", suffix="_e" + m), "E:m=%s,L=2" % m)
        P.add(cw("w123", "longest", suffix="_e"), "E:m=lm,L=2")
        if not q:
            for m in ("ovl", "find", "nosuf"):
                P.add(cw("thai", suffix="_e" + m), "E:m=%s,L=2" % m)
                P.add(cw("greek", suffix="_e" + m), "E:m=%s,L=2" % m)
            P.add(cw("thai", "longest", suffix="_e"), "E:m=lm,L=2")
            P.add(cw("w123", "first", suffix="_e"), "E:m=lm,L=2")
        # (U-map -- CodeMapper::new on a symbolic frequency table -- has no verdict within 30 min even for 3
        # entries: the sort inside it; the mapper is validated per built automaton by T-cw instead)
        P.hand += ["u_utf8::two_chars", "u_utf8::three_chars_offsets", "i_cw::step_overlapping",
                   "i_cw::step_no_suffix", "i_cw::find_two_calls", "i_cw::leftmost_two_calls"]
    elif prop == "C09":
        P.hand += (U_SER_QUICK if q else U_SER_ALL)
        # real images of built automata: the native round-trip cross-check (see main.py image_notes) needs
        # automata in the plan; T6 is the cheapest family to carry them
        for e in (Entry("bw_ser_unit_u128", "bytewise", "standard", corpus.bw_fixed()["unit"], vtype="u128", values=[0, 2 ** 64 - 1, 3, 3, 9]),
                  Entry("bw_ser_bin_i16_lo", "bytewise", "longest", corpus.bw_fixed()["bin"], vtype="i16"),
                  Entry("bw_ser_chain_u8_fi", "bytewise", "first", corpus.bw_fixed()["chain"], vtype="u8"),
                  Entry("cw_ser_w123_u32", "charwise", "standard", corpus.cw_fixed()["w123"], vtype="u32"),
                  Entry("cw_ser_a3_u8_fi", "charwise", "first", corpus.cw_fixed()["a3"], vtype="u8"),
                  Entry("cw_ser_thai_u64_lo", "charwise", "longest", corpus.cw_fixed()["thai"], vtype="u64", values=[2 ** 64 - 1, 0, 5, 5])):
            P.add(e, "T6")
        # A-img: whole images with 0 / 1 element per vector, symbolic content (larger images: out of reach)
        P.hand += ["a_img::bw_image_0", "a_img::bw_image_1", "a_img::cw_image_0", "a_img::cw_image_1"]
    elif prop == "C11":
        vals = (1, 2, 3, 16) if q else (1, 2, 3, 5, 16, 64)     # incl. values that are not powers of two
        fams = ("T1", "T5") if q else ("T1", "T2", "T34", "T6")
        for n in vals:
            P.add(bw("evict3", nfb=n, suffix="_n%d" % n), *fams)
            P.add(bw("fanx", nfb=n, suffix="_n%d" % n), *fams)
        rng = random.Random(seed * 31 + 7)
        big = corpus.gen_bw_big(rng)
        for n in ((1, 16) if q else vals):
            P.add(Entry("bw_big_n%d" % n, "bytewise", "standard", big, nfb=n), *fams)
        deep = corpus.gen_bw_deep(random.Random(seed * 77 + 1))
        for n in ((1, 16) if q else (1, 2, 5, 16)):
            P.add(Entry("bw_deep_n%d" % n, "bytewise", "standard", deep, nfb=n), *(("T1",) if q else ("T1", "T5")))
        if not q:
            dense = corpus.gen_bw_dense(random.Random(seed * 91 + 2))
            for n in (1, 3):
                P.add(Entry("bw_dense_n%d" % n, "bytewise", "standard", dense, nfb=n), "T1")
        # char-wise: small alphabets give tiny blocks, so eviction happens with few patterns
        cwset = ["ab", "ba", "abab", "bbab", "aabb", "babb", "aaab", "bbba", "abba", "baab", "aaaa", "bbbb"]
        cw13 = [a + b for a in "あいうえおかきくけこさしす" for b in "あいう"] + ["すすす", "ああい", "いうえお"]
        for n in ((1, 3, 16) if q else vals):
            P.add(Entry("cw_blocks_n%d" % n, "charwise", "standard", cwset, nfb=n), "T1", "T2", "T34", "T6")
            P.add(Entry("cw_kana_n%d" % n, "charwise", "standard", cw13, nfb=n), "T1", "T34")
            P.add(Entry("bw_lm_n%d" % n, "bytewise", "longest", corpus.bw_fixed()["evict3"][:300] + [b"ab"], nfb=n), "T1", "T5")
        # (an E harness on the 1536-slot evicting table exceeds 24 GB; behaviour on it follows from T1/T2/T34)
    elif prop == "C12":
        P.hand += S_LAZY_QUICK if q else S_LAZY_ALL
    elif prop == "C13":
        fams = ("T34", "T5")
        for n in ("unit", "chain", "bin", "fan"):
            P.add(bw(n), *fams)
        for kind in ("longest", "first"):
            P.add(bw("hard_lm", kind), *fams)
            P.add(bw("hard_lm2", kind), *fams)
            P.add(Entry("bw_fchain_%s" % kind[:2], "bytewise", kind, ["abx", "by", "b", "xabcd", "abz"]), *fams)
            P.add(cw("w123", kind), *fams)
            P.add(Entry("cw_fchain_%s" % kind[:2], "charwise", kind, ["abc", "bc", "cx", "bq"]), *fams)
        for n in ("a3", "a5", "w123", "greek"):
            P.add(cw(n), *fams)
        P.add(Entry("cw_fchain_st", "charwise", "standard", ["abc", "bc", "cx", "bq", "c"]), *fams)
        for e in _seeded_bw(seed, 3 if q else 24) + _seeded_cw(seed, 2 if q else 16):
            P.add(e, *fams)
        for e in _seeded_bw(seed, 2 if q else 12, "longest") + _seeded_cw(seed, 1 if q else 8, "first"):
            P.add(e, *fams)
        if not q:
            P.add(bw("evict3", nfb=1, suffix="_n1"), *fams)
            for n in ("thai", "cjk", "tokyo"):
                P.add(cw(n), *fams)
        P.hand += ["i_bw::step_overlapping", "i_cw::step_overlapping"]
    elif prop == "C15":
        fams = ("T1", "T6")
        for n in ("unit", "bin", "blk_1_1", "blk_1_2", "fan", "spill_nul", "nul_chain"):
            P.add(bw(n), *fams)
        P.add(bw("evict3", nfb=1, suffix="_n1"), *fams)
        cwset = ["ab", "ba", "abab", "bbab", "aabb", "babb", "aaab", "bbba", "abba", "baab", "aaaa", "bbbb"]
        for n in (1, 2):
            P.add(Entry("cw_blocks_n%d" % n, "charwise", "standard", cwset, nfb=n), *fams)
        P.add(Entry("cw_abcdef3_n16", "charwise", "standard",
                    [a + b + c for a in "abcdef" for b in "abcdef" for c in "abcdef"]), *fams)
        # the statistics must not depend on the value type: zero-sized, 1-byte and 16-byte values change the size of an
        # output record (8 / 12 / 32 bytes) but not what the states need
        # (six 200-byte patterns with distinct first bytes: 1201 states, a densely filled table, so that the
        # 12-bytes-per-state bound is tight: 8 bytes per slot would already be too few)
        long2 = [bytes((j * 7 + i * 37) % 251 + 1 for j in range(200)) for i in range(6)]
        for t in ("Empty", "u8", "u128"):
            P.add(Entry("bw_stat_%s" % t.lower(), "bytewise", "standard", long2, vtype=t), "T6")
            P.add(Entry("cw_stat_%s" % t.lower(), "charwise", "standard", corpus.cw_fixed()["w123"], vtype=t), "T6")
        for kind in ("longest", "first"):
            P.add(bw("hard_lm", kind), *fams)
            P.add(cw("w123", kind), *fams)
        P.add(Entry("bw_shadow_fi", "bytewise", "first", ["ab", "abc", "b", "abcd", "bcd"]), *fams)
        P.add(Entry("bw_shadow2_fi", "bytewise", "first", ["a"] + ["a" + chr(0x62 + i) for i in range(20)] + ["ba"]), *fams)
        P.add(Entry("cw_shadow_fi", "charwise", "first", ["東京", "東京都千代田区", "京"]), *fams)
        for n in ("a1", "a3", "a5", "w123", "greek"):
            P.add(cw(n), *fams)
        for e in _seeded_bw(seed, 3 if q else 24) + _seeded_cw(seed, 2 if q else 16):
            P.add(e, *fams)
        for e in _seeded_bw(seed, 2 if q else 12, "first") + _seeded_cw(seed, 2 if q else 8, "first"):
            P.add(e, *fams)
        if not q:
            rng = random.Random(seed * 31 + 7)
            P.add(Entry("bw_big_st", "bytewise", "standard", corpus.gen_bw_big(rng), nfb=1), *fams)
            for n in ("cjk", "tokyo", "astral"):
                P.add(cw(n), *fams)
    else:
        print("property %s is not claimed (see MANIFEST.json not_applicable)" % prop)
        raise SystemExit(2)
    if not q:
        # thorough: the inductive iterator harnesses also over 8-slot tables
        P.hand += [h + "_n8" for h in P.hand if h.startswith(("i_bw::", "i_cw::"))]
    return P


_SER_T = ("u8", "u16", "u32", "u64", "u128", "i8", "i16", "i32", "i64", "i128", "usize", "isize")
U_SER_ALL = (["u_ser::prim_%s" % t for t in _SER_T]
             + ["u_ser::empty", "u_ser::opt_nz", "u_ser::packed", "u_ser::match_kind", "u_ser::match_kind_bytes",
                "u_ser::bw_state", "u_ser::cw_state", "u_ser::vec_u32", "u_ser::vec_bw_state",
                "u_ser::vec_cw_state", "u_ser::mapper", "u_ser::user_type_output"]
             + ["u_ser::bw_output_%s" % t for t in _SER_T]
             + ["u_ser::vec_bw_output_%s" % t for t in ("u8", "u16", "u32", "u64", "u128", "i128")]
             + ["u_ser::vec_cw_output_%s" % t for t in ("u8", "u32", "u128")]
             + ["u_ser::bw_output_empty", "u_ser::vec_bw_output_empty"])
U_SER_QUICK = U_SER_ALL

S_LAZY_ALL = ["s_lazy::bw_find", "s_lazy::bw_overlapping", "s_lazy::bw_no_suffix",
              "s_lazy::cw_find", "s_lazy::cw_overlapping", "s_lazy::cw_no_suffix"]
S_OWN = ["s_lazy::bw_owned_find", "s_lazy::bw_owned_overlapping", "s_lazy::bw_owned_no_suffix"]
S_LAZY_QUICK = list(S_LAZY_ALL)     # S-own: thorough only (3 x ~150 s would push C12 quick past its 900 s budget)
S_LAZY_ALL = S_LAZY_ALL + S_OWN
S_LAZY_ALL = S_LAZY_ALL + ["s_lazy::bw_overlapping_full", "s_lazy::cw_overlapping_full"]
