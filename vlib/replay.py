"""From a CBMC counterexample to a natively reproduced one (DESIGN.md 2.4).

The model's values for the harness's `kani::any()` calls are read from the CBMC trace, and the
SAME harness function is then executed natively (harness-tmpl/src/bin/replay.rs, `shim` standing in
for `kani`) against the real crate, in the dev profile (debug assertions and std's unsafe-precondition
checks on: what Kani models) and in the release profile (what users run).  Only a counterexample
that makes the native run fail is reported."""
import json
import os
import re
import subprocess

from . import kani


def _flatten(v, out):
    if v is None:
        return
    if "elements" in v:
        for e in v["elements"]:
            _flatten(e.get("value"), out)
    elif "members" in v:
        for m in v["members"]:
            _flatten(m.get("value"), out)
    elif "binary" in v:
        b = v["binary"]
        x = int(b, 2)
        t = v.get("type", "")
        if v.get("name") == "integer" and ("unsigned" not in t) and t not in ("_Bool",) and b[0] == "1" \
                and not t.startswith("unsigned") and "char" not in t.replace("unsigned char", ""):
            # signed two's complement: keep the unsigned bit pattern; the shim casts with `as`
            pass
        out.append(x)
    elif "data" in v:
        try:
            out.append(int(v["data"]))
        except ValueError:
            out.append(1 if v["data"] == "TRUE" else 0)


def extract_inputs(trace):
    """Values returned by kani::any_raw_*(), in program order, flattened to primitives."""
    vals = []
    named = {}
    whole = None      # lhs of the last array return value that was taken as a whole
    for s in trace:
        if s.get("stepType") != "assignment":
            continue
        fn = s.get("sourceLocation", {}).get("function", "")
        lhs = s.get("lhs", "")
        if lhs.startswith("goto_symex$$return_value$$") and (
                fn.startswith("kani::any_raw_internal::<") or fn.startswith("kani::any_raw_array::<")
                or fn.startswith("kani::any_raw::<")):
            if fn.startswith("kani::any_raw_internal::<") or True:
                pass
            # an array is reported as one whole-array assignment and/or element-wise ones
            # (`ret[0]`, `ret[1]`, ...): never count both
            base = lhs.split("[")[0]
            if "[" in lhs and whole == base:
                continue
            one = []
            _flatten(s.get("value"), one)
            if "[" not in lhs and "elements" in (s.get("value") or {}):
                whole = base
            elif "[" not in lhs:
                whole = None
            # any_raw -> any_raw_internal nest: count only the innermost producer
            if fn.startswith("kani::any_raw_internal::<") or fn.startswith("kani::any_raw_array::<"):
                vals.extend(one)
        elif re.match(r"^[a-z_][a-z0-9_]*$", lhs) and not lhs.startswith("var_") and s.get("assignmentType") == "variable":
            if lhs not in named:
                one = []
                _flatten(s.get("value"), one)
                named[lhs] = one[0] if len(one) == 1 else one
    return vals, named


_built = {}


def build_replay_bin(ws, profile):
    key = (ws.dir, profile)
    if key in _built:
        return _built[key]
    cmd = ["cargo", "build", "--offline", "--bin", "replay", "--target-dir", os.path.join(ws.scratch, "native-target")]
    if profile == "release":
        cmd.append("--release")
    rc, out = kani.run(cmd, cwd=ws.dir, env=kani._env(), log=ws.log, timeout=1800)
    if rc != 0:
        _built[key] = None
        return None
    path = os.path.join(ws.scratch, "native-target", "release" if profile == "release" else "debug", "replay")
    _built[key] = path
    return path


def run_native(ws, harness, vals, profile, timeout=120):
    exe = build_replay_bin(ws, profile)
    if exe is None:
        return dict(profile=profile, outcome="build-failed")
    try:
        p = subprocess.run([exe, harness] + [str(v) for v in vals], stdout=subprocess.PIPE,
                           stderr=subprocess.PIPE, text=True, errors="replace", timeout=timeout)
    except subprocess.TimeoutExpired:
        return dict(profile=profile, outcome="hang", detail="native run did not finish in %ds" % timeout)
    if p.returncode == 0:
        return dict(profile=profile, outcome="passed", detail=p.stdout.strip()[:200])
    if p.returncode == 1:
        return dict(profile=profile, outcome="reproduced", detail=p.stdout.strip()[:400])
    if p.returncode == 3:
        return dict(profile=profile, outcome="malformed", detail=p.stdout.strip()[:300])
    if p.returncode < 0 or p.returncode >= 128:
        return dict(profile=profile, outcome="aborted", detail=("signal %s: " % p.returncode) + p.stderr.strip()[-300:])
    return dict(profile=profile, outcome="error", detail=p.stderr.strip()[-300:])


def confirm(ws, res, meta, scratch, hang_only=False):
    """Returns (reproduced?, info)."""
    if not res.failed:
        return False, "no failed property"
    # prefer the harness's own assertions over secondary pointer checks
    order = sorted(res.failed, key=lambda f: (0 if ".assertion." in f[0] else 1))
    prop, desc, where = order[0]
    trace = kani.trace_for(res, prop)
    if trace is None:
        return False, "no trace for %s" % prop
    vals, named = extract_inputs(trace)
    runs = [run_native(ws, res.name, vals, "dev", timeout=30 if hang_only else 120)]
    runs.append(run_native(ws, res.name, vals, "release", timeout=30 if hang_only else 120))
    if hang_only:
        reproduced = any(r["outcome"] == "hang" for r in runs)
    else:
        reproduced = any(r["outcome"] in ("reproduced", "aborted", "hang") for r in runs)
    g = meta.get("gen")
    info = dict(
        harness=res.name, failed_property=prop, description=desc, location=where,
        all_failed=[f[1] for f in res.failed[:8]], inputs=vals, named_inputs=named, native=runs,
        key="harness=%s check=%s" % (res.name, re.sub(r"\s+", " ", desc)[:80]),
        hand_modules=sorted({n.split("::")[0] for n in ws.harness_meta if not n.startswith("gen::")}),
    )
    if g:
        info["automaton"] = {k: g[k] for k in ("name", "variant", "kind", "nfb", "vtype", "patterns", "npatterns")}
        info["plan_entry"] = _entry_text(ws, g["name"])
    if g and reproduced:
        info["witness"] = public_witness(ws, info["plan_entry"], scratch)
    if not reproduced:
        return False, "native dev/release runs: %s" % [(r["profile"], r["outcome"], r.get("detail", "")[:80]) for r in runs]
    return True, info


def _entry_text(ws, name):
    text = open(os.path.join(ws.scratch, "plan.txt")).read()
    m = re.search(r"entry %s\n.*?\nend\n" % re.escape(name), text, re.S)
    return m.group(0) if m else ""


def replay_file(path):
    """./check <id> --replay <file>: rebuild from the current tree and re-run the native replay."""
    import shutil
    info = json.load(open(path))
    scratch = os.environ.get("VERIF_SCRATCH") or "/var/tmp/daac-verif-replay.%d" % os.getpid()
    os.makedirs(scratch, exist_ok=True)
    try:
        ws = kani.Workspace(scratch, info.get("plan_entry", ""), info.get("hand_modules", ["selftest"]))
        runs = [run_native(ws, info["harness"], info["inputs"], p) for p in ("dev", "release")]
        for r in runs:
            print("replay %s [%s]: %s %s" % (info["harness"], r["profile"], r["outcome"], r.get("detail", "")))
        return 1 if any(r["outcome"] in ("reproduced", "aborted", "hang") for r in runs) else 0
    except kani.SetupError as e:
        print("ERROR " + str(e)[:2000])
        return 2
    finally:
        shutil.rmtree(scratch, ignore_errors=True)


def public_witness(ws, entry_text, scratch, maxlen=5, timeout=180, lazy=False):
    """Native search for a haystack on which a PUBLIC search method disagrees with the brute-force
    oracle (turns a table-level counterexample into something a user can run; decides nothing)."""
    path = os.path.join(scratch, "witness-plan.txt")
    open(path, "w").write(entry_text)
    env = dict(os.environ)
    if lazy:
        env["VTOOL_WITNESS_LAZY"] = "1"
    try:
        p = subprocess.run([ws.vtool, "witness", path, str(maxlen)], stdout=subprocess.PIPE,
                           stderr=subprocess.DEVNULL, text=True, timeout=timeout, env=env)
    except subprocess.TimeoutExpired:
        return dict(search="timed out")
    for line in p.stdout.splitlines():
        try:
            return json.loads(line)
        except ValueError:
            continue
    if p.returncode < 0:
        return dict(search="aborted with signal %d (e.g. an unsafe precondition check)" % -p.returncode)
    return None


def witness_for_step(ws, harness, prop, seed, scratch, timeout=420):
    """Public-API witness search for a refuted I/S harness: real automata of the harness's variant and
    kind (the property's own plan entries plus seeded tangle/infix sets), every public search method,
    haystacks over alphabet + 2 foreign symbols up to length 5, against the brute-force oracle."""
    from . import plans, corpus
    from .corpus import Entry
    variant = "charwise" if harness.split("::")[0].endswith("cw") or "::cw_" in harness else "bytewise"
    kinds = ("longest", "first") if "leftmost" in harness else ("standard",)
    ents = []
    try:
        for e in plans.plan_for(prop, "quick", seed).entries:
            if e.variant == variant and e.kind in kinds and len(e.pats) <= 40:
                ents.append(e)
    except SystemExit:
        pass
    for kind in kinds:
        ents += plans._tangle_bw(seed, 24, kind, variant) + (plans._infix_bw(seed, 12, kind) if variant == "bytewise" else [])
        if variant == "charwise":
            for n in ("w123", "thai", "a3", "a5", "tokyo"):
                ents.append(Entry("wit_%s_%s" % (n, kind[:2]), "charwise", kind, corpus.cw_fixed()[n]))
        else:
            for n in ("unit", "chain", "hard_lm", "hard_lm2", "find_reset", "bin"):
                ents.append(Entry("wit_%s_%s" % (n, kind[:2]), "bytewise", kind, corpus.bw_fixed()[n]))
    seen = set()
    text = ""
    for i, e in enumerate(ents):
        key = (e.kind, tuple(e.pats))
        if key in seen:
            continue
        seen.add(key)
        c = e.clone("w%d_%s" % (i, e.name))
        c.emits = ["T1"]
        text += c.plan()
    # S-lazy: the defect is in WHEN the source is pulled, not in the matches: the witness search runs the
    # *_from_iter entry points on a counting source
    return public_witness(ws, text, scratch, maxlen=4 if harness.startswith("s_lazy") else 5, timeout=timeout,
                          lazy=harness.startswith("s_lazy"))
