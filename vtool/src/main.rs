//! vtool — native helper of the /verif machinery (see DESIGN.md section 2).
//!
//! `vtool gen <plan> <outdir>`  builds every automaton of the plan with the REAL builder of the
//! current tree, dumps the tables through the `daachorse_verif` hooks, computes the
//! by-definition reference (sets of strings; no trie, no queue, no Aho-Corasick) and emits one
//! Rust module per automaton holding the data as statics plus macro invocations that expand to
//! Kani proof harnesses (macros: harness-tmpl/src/tmacros.rs).
//!
//! `vtool replay <file>`  re-executes a counterexample natively through the public API
//! (see replay.rs).

mod emit;
mod plan;
mod reference;
mod replay;
mod tables;

use std::fmt::Write as _;

fn main() {
    let args: Vec<String> = std::env::args().collect();
    if args.len() < 2 {
        eprintln!("usage: vtool gen <plan> <outdir> | vtool witness <plan> [maxlen]");
        std::process::exit(2);
    }
    match args[1].as_str() {
        "gen" => gen(&args[2], &args[3]),
        "witness" => std::process::exit(replay::main(&args[2..])),
        "speccheck" => speccheck(&args[2]),
        _ => {
            eprintln!("unknown subcommand");
            std::process::exit(2);
        }
    }
}

fn gen(plan_path: &str, outdir: &str) {
    let text = std::fs::read_to_string(plan_path).expect("plan readable");
    let entries = plan::parse(&text);
    std::fs::create_dir_all(outdir).unwrap();
    let mut modrs = String::new();
    let mut json = String::from("[\n");
    let mut first = true;
    // The builder may panic on a defective tree; that is not this tool's verdict to give.
    std::panic::set_hook(Box::new(|_| {}));
    for e in &entries {
        // The real builder runs under a watchdog: a defective tree may make it loop forever, and that
        // must not hang the check (the set is then reported as "did not build").
        let (tx, rx) = std::sync::mpsc::channel();
        let e2 = e.clone();
        std::thread::spawn(move || {
            let r = reference::compute(&e2);
            let built = tables::build(&e2, &r);
            let _ = tx.send((r, built));
        });
        let limit = std::time::Duration::from_secs(
            std::env::var("VERIF_BUILD_TIMEOUT").ok().and_then(|s| s.parse().ok()).unwrap_or(120),
        );
        let (r, built) = match rx.recv_timeout(limit) {
            Ok(x) => x,
            Err(_) => (reference::compute(e), Err(format!("builder did not return within {} s", limit.as_secs()))),
        };
        let mut rec = String::new();
        write!(rec, "{{\"name\":{},", jstr(&e.name)).unwrap();
        write!(rec, "\"variant\":{},", jstr(e.variant.name())).unwrap();
        write!(rec, "\"kind\":{},", jstr(e.kind_name())).unwrap();
        write!(rec, "\"nfb\":{},\"vtype\":{},", e.nfb, jstr(&e.vtype)).unwrap();
        write!(rec, "\"npatterns\":{},", e.pats.len()).unwrap();
        write!(
            rec,
            "\"patterns\":[{}],",
            e.pats
                .iter()
                .take(64)
                .map(|p| jstr(&plan::show_bytes(p)))
                .collect::<Vec<_>>()
                .join(",")
        )
        .unwrap();
        match built {
            Err(msg) => {
                println!("NOTE corpus set {} did not build: {}", e.name, msg);
                write!(rec, "\"built\":false,\"error\":{}}}", jstr(&msg)).unwrap();
            }
            Ok(t) => {
                let (src, info) = emit::module(e, &t, &r);
                std::fs::write(format!("{}/{}.rs", outdir, e.name), src).unwrap();
                writeln!(modrs, "pub mod {};", e.name).unwrap();
                write!(rec, "\"built\":true,{}}}", info).unwrap();
            }
        }
        if !first {
            json.push_str(",\n");
        }
        first = false;
        json.push_str(&rec);
    }
    json.push_str("\n]\n");
    modrs.push_str("pub fn lookup(name: &str) -> Option<fn()> {\n    let (m, f) = name.split_once(\"::\")?;\n    match m {\n");
    for e in &entries {
        if std::path::Path::new(&format!("{}/{}.rs", outdir, e.name)).exists() {
            writeln!(modrs, "        {} => {}::lookup(f),", jstr(&e.name), e.name).unwrap();
        }
    }
    modrs.push_str("        _ => None,\n    }\n}\n");
    std::fs::write(format!("{}/mod.rs", outdir), modrs).unwrap();
    std::fs::write(format!("{}/gen.json", outdir), json).unwrap();
}

pub fn jstr(s: &str) -> String {
    let mut o = String::from("\"");
    for ch in s.chars() {
        match ch {
            '"' => o.push_str("\\\""),
            '\\' => o.push_str("\\\\"),
            '\n' => o.push_str("\\n"),
            c if (c as u32) < 0x20 => write!(o, "\\u{:04x}", c as u32).unwrap(),
            c => o.push(c),
        }
    }
    o.push('"');
    o
}

/// Development aid: compares the by-definition leftmost tables with the implementation natively and
/// prints every disagreement (used to validate reference.rs::leftmost_spec on the unchanged tree).
fn speccheck(plan_path: &str) {
    use daachorse::bytewise::verif as bv;
    use daachorse::charwise::verif as cv;
    let text = std::fs::read_to_string(plan_path).expect("plan readable");
    let mut bad = 0;
    let mut n = 0;
    for e in plan::parse(&text) {
        if !e.is_leftmost() {
            continue;
        }
        let r = reference::compute(&e);
        let Ok(t) = tables::build(&e, &r) else { continue };
        n += 1;
        let mut e32 = e.clone();
        e32.vtype = "u32".into();
        let inv: std::collections::BTreeMap<u32, usize> = t.idx.iter().enumerate().map(|(k, &s)| (s, k)).collect();
        for k in 0..r.nodes.len() {
            // outputs
            let (opos, words) = match e.variant {
                plan::Variant::Bytewise => (t.states[t.idx[k] as usize][2] >> 8, 0),
                plan::Variant::Charwise => (t.states[t.idx[k] as usize][3], 0),
            };
            let _ = words;
            let got = if opos == 0 { None } else { Some((t.outputs[opos as usize - 1].0.clone(), t.outputs[opos as usize - 1].1)) };
            let want = r.lm_expect[k].map(|i| (t.pat_value_lits[i].clone(), r.bytelen[i]));
            if got != want {
                bad += 1;
                println!("OUT {} node {:?}: got {:?} want {:?}", e.name, r.nodes[k], got, want);
            }
            for (a, &c) in r.alphabet.iter().enumerate() {
                let tslot = match e.variant {
                    plan::Variant::Bytewise => {
                        let pma = tables::build_bw_pma::<u32>(&e32).unwrap();
                        unsafe { bv::next_state_leftmost(&pma, t.idx[k], c as u8) }
                    }
                    plan::Variant::Charwise => {
                        let pma = tables::build_cw_pma::<u32>(&e32).unwrap();
                        unsafe { cv::next_state_leftmost(&pma, t.idx[k], char::from_u32(c).unwrap()) }
                    }
                };
                let gotk = inv.get(&tslot).copied();
                if gotk != Some(r.lm_next[k][a] as usize) {
                    bad += 1;
                    println!("NEXT {} node {:?} + {}: got {:?} want {:?}", e.name, r.nodes[k], c,
                        gotk.map(|g| r.nodes[g].clone()), r.nodes[r.lm_next[k][a] as usize]);
                }
            }
        }
    }
    println!("speccheck: {n} leftmost automata, {bad} disagreements");
}
