//! Plan file: which automata to build and which harness families to emit for each.
//!
//! ```text
//! entry <name>
//! variant bytewise|charwise
//! kind standard|longest|first
//! nfb <u32>
//! vtype u32|u8|...
//! values index | <u64>,<u64>,...        (index => build(patterns); list => build_with_values)
//! pat <hex bytes>
//! emit <family>[:k=v[,k=v]] ...
//! end
//! ```

use daachorse::MatchKind;

#[derive(Clone, Copy, PartialEq, Eq, Debug)]
pub enum Variant {
    Bytewise,
    Charwise,
}

impl Variant {
    pub fn name(self) -> &'static str {
        match self {
            Variant::Bytewise => "bytewise",
            Variant::Charwise => "charwise",
        }
    }
}

#[derive(Clone, Debug)]
pub struct Emit {
    pub family: String,
    pub params: Vec<(String, String)>,
}

impl Emit {
    pub fn get(&self, k: &str) -> Option<&str> {
        self.params
            .iter()
            .find(|(a, _)| a == k)
            .map(|(_, b)| b.as_str())
    }
    pub fn get_usize(&self, k: &str, default: usize) -> usize {
        self.get(k).map_or(default, |v| v.parse().unwrap())
    }
}

#[derive(Clone, Debug)]
pub struct Entry {
    pub name: String,
    pub variant: Variant,
    pub kind: MatchKind,
    pub nfb: u32,
    pub vtype: String,
    pub values: Option<Vec<u64>>,
    pub pats: Vec<Vec<u8>>,
    pub emits: Vec<Emit>,
}

impl Entry {
    pub fn kind_name(&self) -> &'static str {
        match self.kind {
            MatchKind::Standard => "standard",
            MatchKind::LeftmostLongest => "longest",
            MatchKind::LeftmostFirst => "first",
        }
    }
    pub fn is_leftmost(&self) -> bool {
        self.kind != MatchKind::Standard
    }
    /// Labels of pattern `i`: bytes or chars.
    pub fn labels(&self, i: usize) -> Vec<u32> {
        match self.variant {
            Variant::Bytewise => self.pats[i].iter().map(|&b| u32::from(b)).collect(),
            Variant::Charwise => std::str::from_utf8(&self.pats[i])
                .expect("char-wise corpus patterns are UTF-8")
                .chars()
                .map(u32::from)
                .collect(),
        }
    }
    /// Raw value number of pattern `i` (before conversion to the value type).
    pub fn value_num(&self, i: usize) -> u64 {
        match &self.values {
            None => i as u64,
            Some(v) => v[i],
        }
    }
}

pub fn parse(text: &str) -> Vec<Entry> {
    let mut out = vec![];
    let mut cur: Option<Entry> = None;
    for line in text.lines() {
        let line = line.trim();
        if line.is_empty() || line.starts_with('#') {
            continue;
        }
        let (key, rest) = match line.split_once(' ') {
            Some((k, r)) => (k, r.trim()),
            None => (line, ""),
        };
        match key {
            "entry" => {
                cur = Some(Entry {
                    name: rest.to_string(),
                    variant: Variant::Bytewise,
                    kind: MatchKind::Standard,
                    nfb: 16,
                    vtype: "u32".into(),
                    values: None,
                    pats: vec![],
                    emits: vec![],
                })
            }
            "variant" => {
                cur.as_mut().unwrap().variant = match rest {
                    "bytewise" => Variant::Bytewise,
                    "charwise" => Variant::Charwise,
                    _ => panic!("bad variant"),
                }
            }
            "kind" => {
                cur.as_mut().unwrap().kind = match rest {
                    "standard" => MatchKind::Standard,
                    "longest" => MatchKind::LeftmostLongest,
                    "first" => MatchKind::LeftmostFirst,
                    _ => panic!("bad kind"),
                }
            }
            "nfb" => cur.as_mut().unwrap().nfb = rest.parse().unwrap(),
            "vtype" => cur.as_mut().unwrap().vtype = rest.to_string(),
            "values" => {
                cur.as_mut().unwrap().values = if rest == "index" {
                    None
                } else {
                    Some(rest.split(',').map(|x| x.parse().unwrap()).collect())
                }
            }
            "pat" => cur.as_mut().unwrap().pats.push(unhex(rest)),
            "emit" => {
                for tok in rest.split_whitespace() {
                    let (fam, ps) = match tok.split_once(':') {
                        Some((f, p)) => (f, p),
                        None => (tok, ""),
                    };
                    let params = ps
                        .split(',')
                        .filter(|s| !s.is_empty())
                        .map(|kv| {
                            let (k, v) = kv.split_once('=').expect("k=v");
                            (k.to_string(), v.to_string())
                        })
                        .collect();
                    cur.as_mut().unwrap().emits.push(Emit {
                        family: fam.to_string(),
                        params,
                    });
                }
            }
            "end" => out.push(cur.take().unwrap()),
            _ => panic!("bad plan line: {line}"),
        }
    }
    out
}

pub fn unhex(s: &str) -> Vec<u8> {
    let b = s.as_bytes();
    assert!(b.len() % 2 == 0);
    (0..b.len() / 2)
        .map(|i| u8::from_str_radix(&s[2 * i..2 * i + 2], 16).unwrap())
        .collect()
}

pub fn hex(b: &[u8]) -> String {
    b.iter().map(|x| format!("{x:02x}")).collect()
}

/// Human-readable rendering for evidence samples.
pub fn show_bytes(b: &[u8]) -> String {
    match std::str::from_utf8(b) {
        Ok(s) if s.chars().all(|c| !c.is_control()) => s.to_string(),
        _ => format!("0x{}", hex(b)),
    }
}
