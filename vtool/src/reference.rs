//! The reference automaton, computed BY DEFINITION from the pattern list with sets of label
//! strings.  No trie, no BFS queue, no fail-link algorithm: every quantity is defined by a
//! predicate on strings ("longest proper suffix that is a prefix of some pattern", "patterns
//! that are suffixes of w") and computed by trying all candidates.

use std::collections::{BTreeMap, BTreeSet};

use daachorse::MatchKind;

use crate::plan::Entry;

pub struct Reference {
    /// Node strings; node 0 is the empty string; sorted by (length, labels) so a parent
    /// always has a smaller number than its children.
    pub nodes: Vec<Vec<u32>>,
    pub parent: Vec<u32>,
    pub label: Vec<u32>,
    pub depth: Vec<u32>,
    /// Node of the longest proper suffix of the node string that is itself a node.
    pub failref: Vec<u32>,
    /// Per node: the live patterns that are suffixes of the node string, longest first, as
    /// pattern indices.
    pub out: Vec<Vec<usize>>,
    /// Pattern `i` can ever be reported (false = shadowed under leftmost-first).
    pub live: Vec<bool>,
    /// Byte length of every pattern.
    pub bytelen: Vec<u32>,
    /// Label strings of every pattern.
    pub plabels: Vec<Vec<u32>>,
    /// Sorted distinct labels used by the patterns.
    pub alphabet: Vec<u32>,
    pub maxdepth: usize,
    pub maxchain: usize,
    /// Leftmost kinds, by definition (see `leftmost_spec`): the pattern a state must carry as its
    /// output (None = must carry none), and the target node of the leftmost transition function
    /// for every (node, alphabet symbol).
    pub lm_expect: Vec<Option<usize>>,
    pub lm_next: Vec<Vec<u32>>,
}

pub fn compute(e: &Entry) -> Reference {
    let np = e.pats.len();
    let plabels: Vec<Vec<u32>> = (0..np).map(|i| e.labels(i)).collect();
    let bytelen: Vec<u32> = e.pats.iter().map(|p| p.len() as u32).collect();

    // Leftmost-first: a pattern with an earlier-registered, live, proper prefix is never
    // reported and contributes no states.
    let mut live = vec![true; np];
    if e.kind == MatchKind::LeftmostFirst {
        for i in 0..np {
            live[i] = !(0..i).any(|j| {
                live[j]
                    && plabels[j].len() < plabels[i].len()
                    && plabels[i][..plabels[j].len()] == plabels[j][..]
            });
        }
    }

    let mut set: BTreeSet<(usize, Vec<u32>)> = BTreeSet::new();
    set.insert((0, vec![]));
    for i in 0..np {
        if live[i] {
            for l in 1..=plabels[i].len() {
                set.insert((l, plabels[i][..l].to_vec()));
            }
        }
    }
    let nodes: Vec<Vec<u32>> = set.into_iter().map(|(_, w)| w).collect();
    let index: BTreeMap<&[u32], u32> = nodes
        .iter()
        .enumerate()
        .map(|(i, w)| (w.as_slice(), i as u32))
        .collect();

    let mut parent = vec![];
    let mut label = vec![];
    let mut depth = vec![];
    let mut failref = vec![];
    let mut out = vec![];
    for w in &nodes {
        if w.is_empty() {
            parent.push(0);
            label.push(0);
            depth.push(0);
            failref.push(0);
            out.push(vec![]);
            continue;
        }
        parent.push(index[&w[..w.len() - 1]]);
        label.push(*w.last().unwrap());
        depth.push(w.len() as u32);
        let mut f = 0;
        for start in 1..w.len() {
            if let Some(&j) = index.get(&w[start..]) {
                f = j;
                break;
            }
        }
        failref.push(f);
        let mut o: Vec<usize> = (0..np)
            .filter(|&i| {
                live[i] && plabels[i].len() <= w.len() && w[w.len() - plabels[i].len()..] == plabels[i][..]
            })
            .collect();
        o.sort_by(|&a, &b| plabels[b].len().cmp(&plabels[a].len()).then(a.cmp(&b)));
        out.push(o);
    }
    let mut alpha: BTreeSet<u32> = BTreeSet::new();
    for p in &plabels {
        alpha.extend(p.iter().copied());
    }
    let maxdepth = nodes.iter().map(Vec::len).max().unwrap_or(0);
    let maxchain = out.iter().map(Vec::len).max().unwrap_or(0);
    let (lm_expect, lm_next) = if e.kind == MatchKind::Standard {
        (vec![], vec![])
    } else {
        leftmost_spec(e.kind, &nodes, &index, &plabels, &live, &alpha.iter().copied().collect::<Vec<_>>())
    };
    Reference {
        lm_expect,
        lm_next,
        nodes,
        parent,
        label,
        depth,
        failref,
        out,
        live,
        bytelen,
        plabels,
        alphabet: alpha.into_iter().collect(),
        maxdepth,
        maxchain,
    }
}

/// The leftmost automaton BY DEFINITION, on strings.
///
/// A state with string `w` stands for "the text read since the current candidate start is `w`".
/// For a start offset `p` into `w` let `x = w[p..]`; the patterns that have occurred at that start
/// are those that are prefixes of `x`; the best of them is the longest (leftmost-longest) or the
/// earliest registered (leftmost-first).
///
/// * Output of the state: take the smallest `p` at which some pattern has occurred (the leftmost
///   start); if its best pattern ends exactly at the end of `w` the state must carry that pattern,
///   otherwise it must carry nothing (the candidate was recorded earlier and has not changed).
/// * Transition on symbol `c`: for `p = 0, 1, ...`: if `x.c` is a prefix of a reportable pattern, go
///   there (the candidate start `p` is still alive); otherwise, if a pattern has already occurred at
///   `p`, the search must stop and emit (target: root); otherwise give up `p` and try `p + 1`.
///   Nothing left: root.
fn leftmost_spec(
    kind: MatchKind,
    nodes: &[Vec<u32>],
    index: &BTreeMap<&[u32], u32>,
    plabels: &[Vec<u32>],
    live: &[bool],
    alpha: &[u32],
) -> (Vec<Option<usize>>, Vec<Vec<u32>>) {
    let np = plabels.len();
    let occurred = |x: &[u32]| -> Vec<usize> {
        (0..np)
            .filter(|&i| plabels[i].len() <= x.len() && x[..plabels[i].len()] == plabels[i][..])
            .collect()
    };
    let best = |c: &[usize]| -> usize {
        if kind == MatchKind::LeftmostFirst {
            *c.iter().min().unwrap()
        } else {
            *c.iter().max_by_key(|&&i| plabels[i].len()).unwrap()
        }
    };
    let mut expect = vec![];
    let mut next = vec![];
    for w in nodes {
        let mut e = None;
        for p in 0..w.len() {
            let occ = occurred(&w[p..]);
            if !occ.is_empty() {
                let b = best(&occ);
                if p + plabels[b].len() == w.len() {
                    e = Some(b);
                }
                break;
            }
        }
        expect.push(e);
        let mut row = vec![];
        for &c in alpha {
            let mut target = 0u32;
            for p in 0..=w.len() {
                let x = &w[p..];
                let mut y = x.to_vec();
                y.push(c);
                if let Some(&j) = index.get(y.as_slice()) {
                    target = j;
                    break;
                }
                if occurred(x).iter().any(|&i| live[i]) {
                    target = 0;
                    break;
                }
            }
            row.push(target);
        }
        next.push(row);
    }
    (expect, next)
}
