//! Native replay of counterexamples (filled in below).

pub fn main(_args: &[String]) -> i32 {
    eprintln!("replay: not implemented yet");
    2
}
