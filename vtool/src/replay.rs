//! `vtool witness <plan>`: public-API witness search for a solver-found table defect.
//!
//! Decides nothing by itself (DESIGN.md 2.4): after CBMC has refuted a T/E obligation for an
//! automaton and the refutation has been reproduced natively, this turns it into an input a user
//! can run: the first haystack over (alphabet + two foreign symbols), up to a length bound, on which
//! a public search method disagrees with the brute-force occurrence oracle (or aborts/hangs).

use std::panic::{catch_unwind, AssertUnwindSafe};

use daachorse::MatchKind;

use crate::plan::{self, Entry, Variant};
use crate::tables::{build_bw_pma, build_cw_pma};

type M = (usize, usize, u64);

fn occ(h: &[u8], start: usize, p: &[u8]) -> bool {
    start + p.len() <= h.len() && &h[start..start + p.len()] == p
}

fn oracle(e: &Entry, h: &[u8], method: &str) -> Vec<M> {
    let np = e.pats.len();
    let mut by_len: Vec<usize> = (0..np).collect();
    by_len.sort_by(|&a, &b| e.pats[b].len().cmp(&e.pats[a].len()).then(a.cmp(&b)));
    let mut out = vec![];
    match method {
        "ovl" => {
            for end in 1..=h.len() {
                for &pi in &by_len {
                    let pl = e.pats[pi].len();
                    if pl <= end && occ(h, end - pl, &e.pats[pi]) {
                        out.push((end - pl, end, e.value_num(pi)));
                    }
                }
            }
        }
        "nosuf" => {
            for end in 1..=h.len() {
                for &pi in &by_len {
                    let pl = e.pats[pi].len();
                    if pl <= end && occ(h, end - pl, &e.pats[pi]) {
                        out.push((end - pl, end, e.value_num(pi)));
                        break;
                    }
                }
            }
        }
        "find" => {
            let mut prev = 0;
            for end in 1..=h.len() {
                for &pi in &by_len {
                    let pl = e.pats[pi].len();
                    if pl <= end - prev && occ(h, end - pl, &e.pats[pi]) {
                        out.push((end - pl, end, e.value_num(pi)));
                        prev = end;
                        break;
                    }
                }
            }
        }
        _ => {
            let mut pos = 0;
            let mut start = 0;
            while start < h.len() {
                if start >= pos {
                    let order: Vec<usize> = if e.kind == MatchKind::LeftmostFirst {
                        (0..np).collect()
                    } else {
                        by_len.clone()
                    };
                    for pi in order {
                        if occ(h, start, &e.pats[pi]) {
                            out.push((start, start + e.pats[pi].len(), e.value_num(pi)));
                            pos = start + e.pats[pi].len();
                            break;
                        }
                    }
                }
                start += 1;
            }
        }
    }
    out
}

enum Real {
    Bw(daachorse::DoubleArrayAhoCorasick<u64>),
    Cw(daachorse::CharwiseDoubleArrayAhoCorasick<u64>),
}

fn build_real(e: &Entry) -> Result<Real, String> {
    // values are compared as u64 numbers: the witness search always builds with V = u64
    let mut e64 = e.clone();
    e64.vtype = "u64".into();
    Ok(match e.variant {
        Variant::Bytewise => Real::Bw(build_bw_pma::<u64>(&e64)?),
        Variant::Charwise => Real::Cw(build_cw_pma::<u64>(&e64)?),
    })
}

struct CountSrc<'a> {
    data: &'a [u8],
    idx: usize,
    pulled: &'a std::cell::Cell<usize>,
}

impl Iterator for CountSrc<'_> {
    type Item = u8;
    fn next(&mut self) -> Option<u8> {
        let b = *self.data.get(self.idx)?;
        self.idx += 1;
        self.pulled.set(self.pulled.get() + 1);
        Some(b)
    }
    // a valid but inexact hint (what a chunked / streaming source reports)
    fn size_hint(&self) -> (usize, Option<usize>) {
        ((self.data.len() - self.idx) / 2, None)
    }
}

/// Laziness witness: the `*_from_iter` entry point on a counting source must return the slice entry
/// point's matches, with exactly `end` bytes pulled at each match and `len` at the final None.
fn run_lazy(real: &Real, h: &[u8], method: &str) -> Result<(), String> {
    let pulled = std::cell::Cell::new(0usize);
    let r = catch_unwind(AssertUnwindSafe(|| -> Result<(), String> {
        macro_rules! cmp {
            ($a:expr, $b:expr) => {{
                let mut a = $a;
                let mut b = $b;
                let mut n = 0;
                loop {
                    let x = a.next();
                    let y = b.next();
                    if x != y {
                        return Err(format!("from_iter gives {x:?}, slice gives {y:?}"));
                    }
                    match x {
                        Some(m) => {
                            if pulled.get() != m.end() {
                                return Err(format!("{} bytes pulled when the match ending at {} was returned", pulled.get(), m.end()));
                            }
                        }
                        None => {
                            if pulled.get() != h.len() {
                                return Err(format!("{} of {} bytes pulled at the final None", pulled.get(), h.len()));
                            }
                            break;
                        }
                    }
                    n += 1;
                    if n > 4 * h.len() + 8 {
                        return Err("iterator does not stop".into());
                    }
                }
            }};
        }
        let src = CountSrc { data: h, idx: 0, pulled: &pulled };
        match real {
            Real::Bw(pma) => match method {
                "ovl" => cmp!(pma.find_overlapping_iter_from_iter(src), pma.find_overlapping_iter(h)),
                "nosuf" => cmp!(pma.find_overlapping_no_suffix_iter_from_iter(src), pma.find_overlapping_no_suffix_iter(h)),
                _ => cmp!(pma.find_iter_from_iter(src), pma.find_iter(h)),
            },
            Real::Cw(pma) => {
                let s = std::str::from_utf8(h).map_err(|_| "not utf8".to_string())?;
                match method {
                    "ovl" => cmp!(unsafe { pma.find_overlapping_iter_from_iter(src) }, pma.find_overlapping_iter(s)),
                    "nosuf" => cmp!(unsafe { pma.find_overlapping_no_suffix_iter_from_iter(src) }, pma.find_overlapping_no_suffix_iter(s)),
                    _ => cmp!(unsafe { pma.find_iter_from_iter(src) }, pma.find_iter(s)),
                }
            }
        }
        Ok(())
    }));
    match r {
        Ok(x) => x,
        Err(_) => Err("panic".into()),
    }
}

fn run_real(real: &Real, npats: usize, h: &[u8], method: &str) -> Result<Vec<M>, String> {
    let cap = 4 * h.len() * npats.max(1) + 4;
    let r = catch_unwind(AssertUnwindSafe(|| -> Result<Vec<M>, String> {
        let mut out = vec![];
        macro_rules! collect {
            ($it:expr) => {
                for m in $it {
                    out.push((m.start(), m.end(), m.value()));
                    if out.len() > cap {
                        return Err("iterator does not stop".into());
                    }
                }
            };
        }
        match real {
            Real::Bw(pma) => match method {
                "ovl" => collect!(pma.find_overlapping_iter(h)),
                "nosuf" => collect!(pma.find_overlapping_no_suffix_iter(h)),
                "find" => collect!(pma.find_iter(h)),
                _ => collect!(pma.leftmost_find_iter(h)),
            },
            Real::Cw(pma) => {
                let s = std::str::from_utf8(h).map_err(|_| "not utf8".to_string())?;
                match method {
                    "ovl" => collect!(pma.find_overlapping_iter(s)),
                    "nosuf" => collect!(pma.find_overlapping_no_suffix_iter(s)),
                    "find" => collect!(pma.find_iter(s)),
                    _ => collect!(pma.leftmost_find_iter(s)),
                }
            }
        }
        Ok(out)
    }));
    match r {
        Ok(x) => x,
        Err(_) => Err("panic".into()),
    }
}

pub fn main(args: &[String]) -> i32 {
    let text = std::fs::read_to_string(&args[0]).expect("plan");
    let maxlen: usize = args.get(1).map_or(5, |s| s.parse().unwrap());
    let entries = plan::parse(&text);
    let lazy = std::env::var("VTOOL_WITNESS_LAZY").is_ok();
    std::panic::set_hook(Box::new(|_| {}));
    for e in &entries {
        let real = match build_real(e) {
            Ok(r) => r,
            Err(msg) => {
                println!("{{\"automaton\":{},\"build_error\":{}}}", crate::jstr(&e.name), crate::jstr(&msg));
                continue;
            }
        };
        // symbols: every pattern label plus two foreign ones
        let mut syms: Vec<Vec<u8>> = vec![];
        match e.variant {
            Variant::Bytewise => {
                let mut seen = [false; 256];
                for p in &e.pats {
                    for &b in p {
                        seen[b as usize] = true;
                    }
                }
                for b in 0..256usize {
                    if seen[b] {
                        syms.push(vec![b as u8]);
                    }
                }
                let foreign: Vec<u8> = (0..=255u8).filter(|b| !seen[*b as usize]).collect();
                for f in [foreign.first(), foreign.last()].into_iter().flatten() {
                    syms.push(vec![*f]);
                }
            }
            Variant::Charwise => {
                let mut cs: Vec<char> = vec![];
                for p in &e.pats {
                    for c in std::str::from_utf8(p).unwrap().chars() {
                        if !cs.contains(&c) {
                            cs.push(c);
                        }
                    }
                }
                for f in ['\u{2}', '\u{10FFFF}'] {
                    if !cs.contains(&f) {
                        cs.push(f);
                    }
                }
                for c in cs {
                    syms.push(c.to_string().into_bytes());
                }
            }
        }
        if syms.len() > 12 {
            syms.truncate(12);
        }
        let methods: &[&str] = if e.kind == MatchKind::Standard {
            &["ovl", "find", "nosuf"]
        } else {
            &["lm"]
        };
        let mut budget = 300_000usize;
        let mut idx = vec![0usize; 0];
        'len: for len in 1..=maxlen {
            idx = vec![0; len];
            loop {
                let mut h = vec![];
                for &i in &idx {
                    h.extend_from_slice(&syms[i]);
                }
                for m in methods {
                    if lazy {
                        if *m == "lm" {
                            continue;
                        }
                        if let Err(msg) = run_lazy(&real, &h, m) {
                            println!(
                                "{{\"automaton\":{},\"method\":{},\"haystack_hex\":\"{}\",\"haystack\":{},\"laziness\":{}}}",
                                crate::jstr(&e.name),
                                crate::jstr(&format!("{m}_from_iter")),
                                plan::hex(&h),
                                crate::jstr(&plan::show_bytes(&h)),
                                crate::jstr(&msg)
                            );
                            return 1;
                        }
                        continue;
                    }
                    let exp = oracle(e, &h, m);
                    let got = run_real(&real, e.pats.len(), &h, m);
                    let bad = match &got {
                        Ok(g) => *g != exp,
                        Err(_) => true,
                    };
                    if bad {
                        println!(
                            "{{\"automaton\":{},\"method\":{},\"haystack_hex\":\"{}\",\"haystack\":{},\"expected\":{},\"got\":{}}}",
                            crate::jstr(&e.name),
                            crate::jstr(m),
                            plan::hex(&h),
                            crate::jstr(&plan::show_bytes(&h)),
                            format!("{exp:?}").replace('(', "[").replace(')', "]"),
                            crate::jstr(&format!("{got:?}"))
                        );
                        return 1;
                    }
                }
                budget -= 1;
                if budget == 0 {
                    break 'len;
                }
                // next index vector
                let mut k = len;
                loop {
                    if k == 0 {
                        continue 'len;
                    }
                    k -= 1;
                    idx[k] += 1;
                    if idx[k] < syms.len() {
                        break;
                    }
                    idx[k] = 0;
                }
            }
        }
        let _ = idx;
    }
    println!("{{\"witness\":null}}");
    0
}
