//! Builds a plan entry with the real builder and dumps the raw tables through the hooks.

use std::panic::{catch_unwind, AssertUnwindSafe};

use daachorse::bytewise::verif as bv;
use daachorse::charwise::verif as cv;
use daachorse::{
    CharwiseDoubleArrayAhoCorasick, CharwiseDoubleArrayAhoCorasickBuilder, DoubleArrayAhoCorasick,
    DoubleArrayAhoCorasickBuilder, Serializable,
};

use crate::plan::{Entry, Variant};
use crate::reference::Reference;

pub const NONE: u32 = u32::MAX;

pub trait Val: Copy + TryFrom<usize> + Serializable + 'static {
    fn from_u64(x: u64) -> Self;
    fn lit(&self) -> String;
}

macro_rules! val_int {
    ($($t:ident),*) => {$(
        impl Val for $t {
            fn from_u64(x: u64) -> Self { x as $t }
            fn lit(&self) -> String { format!("{}{}", self, stringify!($t)) }
        }
    )*};
}
val_int!(u8, u16, u32, u64, u128, i8, i16, i32, i64, i128, usize, isize);

impl Val for daachorse::Empty {
    fn from_u64(_x: u64) -> Self {
        daachorse::Empty
    }
    fn lit(&self) -> String {
        "daachorse::Empty".into()
    }
}

#[macro_export]
macro_rules! dispatch_vtype {
    ($vt:expr, $f:ident ( $($arg:expr),* )) => {
        match $vt {
            "u8" => $f::<u8>($($arg),*),
            "u16" => $f::<u16>($($arg),*),
            "u32" => $f::<u32>($($arg),*),
            "u64" => $f::<u64>($($arg),*),
            "u128" => $f::<u128>($($arg),*),
            "i8" => $f::<i8>($($arg),*),
            "i16" => $f::<i16>($($arg),*),
            "i32" => $f::<i32>($($arg),*),
            "i64" => $f::<i64>($($arg),*),
            "i128" => $f::<i128>($($arg),*),
            "usize" => $f::<usize>($($arg),*),
            "isize" => $f::<isize>($($arg),*),
            "Empty" => $f::<daachorse::Empty>($($arg),*),
            other => panic!("unsupported vtype {other}"),
        }
    };
}

pub struct Tables {
    /// byte-wise: `[base, fail, opos_ch, 0]`; char-wise: `[base, check, fail, output_pos]`.
    pub states: Vec<[u32; 4]>,
    pub mapper: Option<(Vec<u32>, u32)>,
    /// `(value literal, length, parent)`.
    pub outputs: Vec<(String, u32, u32)>,
    pub num_states_field: u32,
    /// Slot of every reference node, found by walking the real `child` function from the
    /// root along the node's string; `NONE` if the walk breaks off.
    pub idx: Vec<u32>,
    /// Expected value literal of every pattern (after the real conversion).
    pub pat_value_lits: Vec<String>,
    /// Is the dump of `deserialize_unchecked(serialize())` identical, with nothing left over?
    pub ser_identical: bool,
    pub ser_len: usize,
    pub image: Vec<u8>,
}

pub fn build(e: &Entry, r: &Reference) -> Result<Tables, String> {
    match e.variant {
        Variant::Bytewise => dispatch_vtype!(e.vtype.as_str(), build_bw(e, r)),
        Variant::Charwise => dispatch_vtype!(e.vtype.as_str(), build_cw(e, r)),
    }
}

fn value_lits<V: Val>(e: &Entry) -> Vec<String> {
    (0..e.pats.len())
        .map(|i| match &e.values {
            None => V::try_from(i).map_or_else(|_| "<conversion fails>".into(), |v| v.lit()),
            Some(vals) => V::from_u64(vals[i]).lit(),
        })
        .collect()
}

pub fn build_bw_pma<V: Val>(e: &Entry) -> Result<DoubleArrayAhoCorasick<V>, String> {
    let res = catch_unwind(AssertUnwindSafe(|| {
        let b = DoubleArrayAhoCorasickBuilder::new()
            .match_kind(e.kind)
            .num_free_blocks(e.nfb);
        match &e.values {
            None => b.build::<_, _, V>(e.pats.iter()),
            Some(vals) => {
                b.build_with_values(e.pats.iter().zip(vals.iter().map(|&x| V::from_u64(x))))
            }
        }
    }));
    match res {
        Err(_) => Err("builder panicked".into()),
        Ok(Err(err)) => Err(format!("{err:?}")),
        Ok(Ok(p)) => Ok(p),
    }
}

pub fn build_cw_pma<V: Val>(e: &Entry) -> Result<CharwiseDoubleArrayAhoCorasick<V>, String> {
    let strs: Vec<&str> = e
        .pats
        .iter()
        .map(|p| std::str::from_utf8(p).expect("UTF-8 corpus"))
        .collect();
    let res = catch_unwind(AssertUnwindSafe(|| {
        let b = CharwiseDoubleArrayAhoCorasickBuilder::new()
            .match_kind(e.kind)
            .num_free_blocks(e.nfb);
        match &e.values {
            None => b.build::<_, _, V>(strs.iter()),
            Some(vals) => {
                b.build_with_values(strs.iter().zip(vals.iter().map(|&x| V::from_u64(x))))
            }
        }
    }));
    match res {
        Err(_) => Err("builder panicked".into()),
        Ok(Err(err)) => Err(format!("{err:?}")),
        Ok(Ok(p)) => Ok(p),
    }
}

fn build_bw<V: Val>(e: &Entry, r: &Reference) -> Result<Tables, String> {
    let pma = build_bw_pma::<V>(e)?;
    let (states, outputs, _kind, ns) = bv::raw(&pma);
    let dump = |p: &DoubleArrayAhoCorasick<V>| {
        let (s, o, k, n) = bv::raw(p);
        (
            s,
            o.iter().map(|x| (x.0.lit(), x.1, x.2)).collect::<Vec<_>>(),
            k,
            n,
        )
    };
    let bytes = pma.serialize();
    let ser_identical = catch_unwind(AssertUnwindSafe(|| {
        let mut padded = bytes.clone();
        padded.extend_from_slice(&[0xA5, 0x5A]);
        let (back, rest) =
            unsafe { DoubleArrayAhoCorasick::<V>::deserialize_unchecked(&padded) };
        dump(&back) == dump(&pma) && rest == [0xA5, 0x5A] && back.serialize() == bytes
    }))
    .unwrap_or(false);
    let nslot = states.len();
    let idx = r
        .nodes
        .iter()
        .map(|w| {
            let mut s = 0u32;
            for &c in w {
                if (s as usize) >= nslot {
                    return NONE;
                }
                // Guard the callee's own unchecked read as well: base ^ c must be in range.
                let base = states[s as usize][0];
                if base != 0 && ((base ^ c) as usize) >= nslot {
                    return NONE;
                }
                match unsafe { bv::child(&pma, s, c as u8) } {
                    Some(t) => s = t,
                    None => return NONE,
                }
            }
            s
        })
        .collect();
    Ok(Tables {
        states: states.iter().map(|w| [w[0], w[1], w[2], 0]).collect(),
        mapper: None,
        outputs: outputs.iter().map(|o| (o.0.lit(), o.1, o.2)).collect(),
        num_states_field: ns,
        idx,
        pat_value_lits: value_lits::<V>(e),
        ser_identical,
        ser_len: bytes.len(),
        image: bytes.clone(),
    })
}

fn build_cw<V: Val>(e: &Entry, r: &Reference) -> Result<Tables, String> {
    let pma = build_cw_pma::<V>(e)?;
    let (states, mapper, outputs, _kind, ns) = cv::raw(&pma);
    let dump = |p: &CharwiseDoubleArrayAhoCorasick<V>| {
        let (s, m, o, k, n) = cv::raw(p);
        (
            s,
            m,
            o.iter().map(|x| (x.0.lit(), x.1, x.2)).collect::<Vec<_>>(),
            k,
            n,
        )
    };
    let bytes = pma.serialize();
    let ser_identical = catch_unwind(AssertUnwindSafe(|| {
        let mut padded = bytes.clone();
        padded.extend_from_slice(&[0xA5, 0x5A]);
        let (back, rest) =
            unsafe { CharwiseDoubleArrayAhoCorasick::<V>::deserialize_unchecked(&padded) };
        dump(&back) == dump(&pma) && rest == [0xA5, 0x5A] && back.serialize() == bytes
    }))
    .unwrap_or(false);
    let nslot = states.len();
    let idx = r
        .nodes
        .iter()
        .map(|w| {
            let mut s = 0u32;
            for &c in w {
                if (s as usize) >= nslot {
                    return NONE;
                }
                let ch = char::from_u32(c).unwrap();
                let Some(code) = cv::map_char(&pma, ch) else {
                    return NONE;
                };
                let base = states[s as usize][0];
                if base != 0 && ((base ^ code) as usize) >= nslot {
                    return NONE;
                }
                match unsafe { cv::child(&pma, s, code) } {
                    Some(t) => s = t,
                    None => return NONE,
                }
            }
            s
        })
        .collect();
    Ok(Tables {
        states,
        mapper: Some(mapper),
        outputs: outputs.iter().map(|o| (o.0.lit(), o.1, o.2)).collect(),
        num_states_field: ns,
        idx,
        pat_value_lits: value_lits::<V>(e),
        ser_identical,
        ser_len: bytes.len(),
        image: bytes.clone(),
    })
}
